#!/venv/bin/python
"""C12 -- results do not depend on laziness, chunking, layout or threading.

Deterministic simulation with fault injection; see DESIGN.md section 3.

usage: c12.py --tier quick|thorough [--budget S] [--only A,B,C,T,R,D,W] [--replay FILE]
exit 0: held on everything explored; 1: VIOLATION line(s) printed; 2: harness error.
"""

from __future__ import annotations

import argparse
import os
import sys
import time

sys.path.insert(0, os.path.dirname(os.path.dirname(os.path.abspath(__file__))))

from sim import driver  # noqa: E402

driver.reexec_with_hashseed()
driver.point_at_repo()

PROP = "C12"


def main():
    ap = argparse.ArgumentParser()
    ap.add_argument("--tier", default=os.environ.get("VERIF_TIER", "quick"))
    ap.add_argument("--budget", type=float, default=None, help="seconds of exploration per workload group")
    ap.add_argument("--only", default=None, help="comma list of workloads (A,B,C,T,R,D,W)")
    ap.add_argument("--replay", default=None)
    ap.add_argument("--nproc", type=int, default=int(os.environ.get("VERIF_NPROC", "16")))
    ap.add_argument("--no-evidence", action="store_true")
    ap.add_argument("--dump", default=None, help="self-test: write key->digest map here (fixed run counts, no evidence)")
    ap.add_argument("--max-runs", type=int, default=15)
    ap.add_argument("--ops", default=None, help="comma list restricting the per-operation jobs")
    args = ap.parse_args()
    from sim import c12impl

    if args.replay:
        sys.exit(c12impl.replay_file(args.replay))
    sys.exit(c12impl.run_check(args))


if __name__ == "__main__":
    try:
        main()
    except SystemExit:
        raise
    except BaseException as e:  # noqa: BLE001 - an uncaught exception is a harness error (exit 2), never a verdict
        import traceback

        traceback.print_exc()
        print(f"HARNESS-ERROR: {type(e).__name__}: {e}")
        sys.exit(2)
