#!/venv/bin/python
"""C14 -- no kernel reads or writes outside its arrays on in-contract input; every output
element is written; results are repeatable.

Allocator / call-history simulation with index assertions compiled in (DESIGN.md section 4):
every kernel group runs the same seeded call history in sibling processes started under
different allocator states (MALLOC_PERTURB_ unset / byte A / byte B) with
NUMBA_BOUNDSCHECK=1; gufunc outputs go into recycled, poisoned caller buffers.

usage: c14.py --tier quick|thorough [--budget S] [--replay FILE]
exit 0 held; 1 VIOLATION printed; 2 harness error.
"""

from __future__ import annotations

import argparse
import json
import os
import random
import shutil
import subprocess
import sys
import tempfile
import time

VERIF = os.path.dirname(os.path.dirname(os.path.abspath(__file__)))
sys.path.insert(0, VERIF)

from sim import driver  # noqa: E402

PROP = "C14"
PY = sys.executable

TIERS = {
    "quick": {"budget": 25, "nb_cap": 10**6, "variants": 3, "hang": 900},
    "thorough": {"budget": 600, "nb_cap": 10**6, "variants": 4, "hang": 4000},
}


def variant_env(v):
    env = dict(os.environ)
    env["NUMBA_BOUNDSCHECK"] = "1"
    env["PYTHONHASHSEED"] = "0"
    env["NUMBA_NUM_THREADS"] = "2"
    env["OMP_WAIT_POLICY"] = "PASSIVE"  # 27+ processes share 16 cores: never spin-wait
    env["PYTHONPATH"] = VERIF + os.pathsep + env.get("PYTHONPATH", "")
    env.pop("MALLOC_PERTURB_", None)
    env.pop("GLIBC_TUNABLES", None)
    if v != "unset":
        env["MALLOC_PERTURB_"] = str(v)
        # glibc's thread cache hands small blocks back without going through the perturbing path:
        # with the tcache on, allocations below ~1 KiB (most scratch arrays of short series) keep
        # their stale content under every perturb byte.  Measured by the worker's probe.
        env["GLIBC_TUNABLES"] = "glibc.malloc.tcache_count=0"
    return env


def draw_variants(seed, n):
    """Allocator states.  glibc fills malloc'ed memory with (MALLOC_PERTURB_ ^ 0xFF) and freed memory
    with the byte itself.  Bytes are drawn from a curated list whose *allocation* patterns read as
    large-magnitude numbers in every dtype the kernels use (a pattern such as 0x99.. is ~1e-23 as
    float32 and would be absorbed by rounding): 128 -> 0x7F.. (3.4e38 / 1.4e306 / 32639),
    180 -> 0x4B.. (1.3e7), 54 -> 0xC9.. (-1.7e6), 170 -> 0x55.. (1.5e13), 192 -> 0x3F.. (0.75),
    64 -> 0xBF.. (-0.75), 1 -> 0xFE.. (-1.7e38, ints -258)."""
    rng = random.Random(f"{seed}/c14/variants")
    pool = [180, 54, 170, 192, 64, 1]
    rng.shuffle(pool)
    return (["unset", 128] + pool)[: max(2, n)]


def run_workers(seed, conf, tmp, repo, nproc):
    from sim.kernels14 import GROUPS

    variants = draw_variants(seed, conf["variants"])
    todo = [(g, v) for g in range(len(GROUPS)) for v in variants]
    # slowest-to-compile groups first
    order = {7: 0, 6: 1, 1: 2, 3: 3}
    todo.sort(key=lambda gv: order.get(gv[0], 9))
    running = []
    done = {}
    errors = []
    t0 = time.monotonic()
    while todo or running:
        while todo and len(running) < nproc:
            g, v = todo.pop(0)
            out = os.path.join(tmp, f"g{g}_{v}.json")
            log = open(os.path.join(tmp, f"g{g}_{v}.log"), "w")
            cmd = [PY, "-m", "sim.c14worker", "--group", str(g), "--seed", str(seed), "--budget", str(conf["budget"]), "--nb-cap", str(conf["nb_cap"]), "--out", out, "--repo", repo]
            p = subprocess.Popen(cmd, env=variant_env(v), cwd=VERIF, stdout=log, stderr=subprocess.STDOUT)
            running.append((g, v, p, out, log, time.monotonic()))
        time.sleep(0.2)
        still = []
        for g, v, p, out, log, ts in running:
            rc = p.poll()
            if rc is None:
                if time.monotonic() - ts > conf["hang"]:
                    p.kill()
                    errors.append(f"worker group {g} variant {v} exceeded {conf['hang']}s (killed)")
                    log.close()
                else:
                    still.append((g, v, p, out, log, ts))
                continue
            log.close()
            if rc != 0 or not os.path.exists(out):
                tail = open(os.path.join(tmp, f"g{g}_{v}.log")).read()[-1500:]
                errors.append(f"worker group {g} variant {v} failed rc={rc}: {tail}")
                continue
            with open(out) as f:
                done[(g, v)] = json.load(f)
        running = still
    return variants, done, errors


def regenerate_call(seed, group_names, i, nb_cap):
    from sim.c14worker import args_to_json, history_entry
    from sim.kernels14 import PROGRAMS

    name, mode, rng, nprng = history_entry(seed, group_names, i, nb_cap)
    d = PROGRAMS[name].gen(rng, nprng, mode)
    return name, mode, d, args_to_json(d["args"])


def _single_call_replay(payload, repo, tmp):
    path = os.path.join(tmp, "call.json")
    with open(path, "w") as f:
        json.dump(payload, f)
    outs = {}
    for v in payload["variants"]:
        r = subprocess.run([PY, "-m", "sim.c14worker", "--replay-single", path, "--repo", repo], env=variant_env(v), cwd=VERIF, capture_output=True, text=True, timeout=1200)
        line = [l for l in r.stdout.splitlines() if l.startswith("RESULT ")]
        if not line:
            return None, f"replay worker failed under variant {v}: {r.stderr[-800:]}"
        outs[str(v)] = json.loads(line[0][7:])
    want = payload["violation"]["class"]
    for v, o in outs.items():
        for vclass, msg in o["violations"]:
            if vclass == want:
                return True, f"single call under allocator state {v}: {vclass}: {msg}"
    keys = {(o["sha"], o["exc"]) for o in outs.values()}
    if len(keys) > 1 and want in ("output-depends-on-allocator-state", "output-not-repeatable", "output-depends-on-buffer-content"):
        return True, f"single call: outputs differ across allocator states {sorted(outs)}: " + json.dumps({v: [o['sha'], o['exc']] for v, o in outs.items()})
    return False, f"single call not reproduced; observed {outs}"


def _history_replay(payload, repo, tmp):
    """Fallback: re-execute the group's history up to the failing position under every state
    (the states run in parallel)."""
    upto = int(payload.get("upto", payload.get("index", 0)))
    g = payload["group"]
    recs = {}
    want = payload["violation"]["class"]
    procs = []
    for v in payload["variants"]:
        out = os.path.join(tmp, f"hist_{v}.json")
        cmd = [PY, "-m", "sim.c14worker", "--group", str(g), "--seed", str(payload["seed"]), "--budget", "100000", "--max-calls", str(upto + 1), "--out", out, "--repo", repo]
        procs.append((v, out, subprocess.Popen(cmd, env=variant_env(v), cwd=VERIF, stdout=subprocess.PIPE, stderr=subprocess.STDOUT, text=True)))
    hit = None
    for v, out, pr in procs:
        try:
            so, _ = pr.communicate(timeout=3000)
        except subprocess.TimeoutExpired:
            pr.kill()
            return None, f"history replay timed out under variant {v}"
        if pr.returncode or not os.path.exists(out):
            return None, f"history replay failed under variant {v}: {so[-600:]}"
        with open(out) as f:
            d = json.load(f)
        for viol in d["violations"]:
            if hit is None and viol["class"] == want and viol["kernel"] == payload["kernel"]:
                hit = f"history prefix (group {g}, {upto + 1} entries) under allocator state {v}: {want}: {viol['message']}"
        recs[str(v)] = {r_["i"]: (r_.get("sha"), r_.get("exc")) for r_ in d["records"]}
    if hit:
        return True, hit
    idx = payload.get("index")
    keys = {recs[v].get(idx) for v in recs}
    if len(keys) > 1:
        return True, f"history prefix: call #{idx} differs across allocator states {sorted(recs)}"
    return False, "history prefix not reproduced"


def replay_payload(payload, repo):
    """Re-run the recorded call under every recorded allocator state (single call first; if the
    violation needs the heap state its history created, the history prefix)."""
    tmp = tempfile.mkdtemp(prefix="c14replay_", dir=driver.tmp_root())
    try:
        ok, text = _single_call_replay(payload, repo, tmp)
        if ok or ok is None:
            return ok, text
        ok2, text2 = _history_replay(payload, repo, tmp)
        if ok2 is None:
            return None, text2
        return ok2, (text2 if ok2 else text + " | " + text2)
    finally:
        shutil.rmtree(tmp, ignore_errors=True)


def main():
    ap = argparse.ArgumentParser()
    ap.add_argument("--tier", default=os.environ.get("VERIF_TIER", "quick"))
    ap.add_argument("--budget", type=float, default=None)
    ap.add_argument("--replay", default=None)
    ap.add_argument("--nproc", type=int, default=int(os.environ.get("VERIF_NPROC", "16")))
    ap.add_argument("--no-evidence", action="store_true")
    args = ap.parse_args()
    repo = driver.repo_dir()
    seed = driver.seed_from_env()

    if args.replay:
        with open(args.replay) as f:
            payload = json.load(f)
        print(f"replaying {args.replay}: kernel={payload['kernel']} class={payload['violation']['class']} key={payload.get('key')}")
        ok, text = replay_payload(payload, repo)
        print(text)
        if ok is None:
            print("HARNESS-ERROR during replay")
            sys.exit(2)
        if ok:
            print(f"VIOLATION property={PROP} replay={args.replay}")
            sys.exit(1)
        sys.exit(0)

    tier = args.tier if args.tier in TIERS else "quick"
    conf = dict(TIERS[tier])
    if args.budget:
        conf["budget"] = args.budget
    t0 = time.monotonic()
    print(f"C14 check: tier={tier} VERIF_SEED={seed} repo={repo} nproc={args.nproc}")
    sys.stdout.flush()
    tmp = tempfile.mkdtemp(prefix="c14_", dir=driver.tmp_root())
    try:
        variants, done, errors = run_workers(seed, conf, tmp, repo, args.nproc)
        rc = report(seed, tier, conf, variants, done, errors, time.monotonic() - t0, repo, not args.no_evidence)
    finally:
        shutil.rmtree(tmp, ignore_errors=True)
    sys.exit(rc)


def report(seed, tier, conf, variants, done, errors, wall, repo, write_ev=True):
    from sim.kernels14 import GROUPS, PROGRAMS

    known = driver.load_known()
    calls = sum(d["calls"] for d in done.values())
    entries = sum(d["entries"] for d in done.values())
    dirty = sum(d["dirty_buffers"] for d in done.values())
    reused = sum(d["buffers_reused"] for d in done.values())
    repeats = sum(d["repeats"] for d in done.values())
    tuples = set()
    probes = {}
    perturb_ok = {}
    for (g, v), d in done.items():
        pr = d.get("probe", {})
        probes[f"g{g}/{v}"] = pr
        nonzero = bool(pr.get("numpy_empty_byte")) and bool(pr.get("nrt_empty_byte"))
        perturb_ok[(g, v)] = nonzero
        for t in d["tuples"]:
            name, sc, pk, pb = t.split("|")
            if (pk not in ("-", "00")) or (v != "unset" and nonzero):
                tuples.add(t)
    found = []  # payloads
    counts = {}
    known_hits = {}

    def add(kernel, vclass, msg, extra):
        counts[f"{kernel}:{vclass}"] = counts.get(f"{kernel}:{vclass}", 0) + 1
        kf = driver.match_known(known, PROP, vclass, {"op": kernel, "class": vclass, "size_class": extra.get("size_class")})
        if kf is not None:
            known_hits[kf["id"]] = known_hits.get(kf["id"], 0) + 1
            return
        if sum(1 for p in found if p["tag"] == f"{kernel}:{vclass}") >= 2:
            return
        p = {"property": PROP, "tag": f"{kernel}:{vclass}", "kernel": kernel, "violation": {"class": vclass, "message": msg}, "variants": variants, "seed": seed}
        p.update(extra)
        found.append(p)

    # in-process violations (A1, A2-i, A2-iii, A3), smallest history index first
    allv = []
    for (g, v), d in done.items():
        for viol in d["violations"]:
            allv.append((viol["i"], g, v, viol))
    allv.sort(key=lambda x: (x[0], x[1], str(x[2])))
    for i, g, v, viol in allv:
        add(viol["kernel"], viol["class"], viol["message"], {"key": f"{seed}/c14/g{g}/{i}", "group": g, "index": i, "perturb": v, "args": viol["args"], "outs": viol["outs"], "poisons": viol["poisons"], "size_class": viol["size_class"], "mode": viol["mode"], "upto": viol.get("upto", i)})
    # cross-process comparison (A2-ii)
    compared = 0
    for g in range(len(GROUPS)):
        recs = {v: {r["i"]: r for r in done[(g, v)]["records"] if "sha" in r} for v in variants if (g, v) in done}
        if len(recs) < 2:
            continue
        common = set.intersection(*[set(r) for r in recs.values()])
        for i in sorted(common):
            compared += 1
            keys = {(recs[v][i]["sha"], recs[v][i]["exc"]) for v in recs}
            if len(keys) > 1:
                try:
                    name, mode, d, jargs = regenerate_call(seed, GROUPS[g], i, conf["nb_cap"])
                    extra = {"key": f"{seed}/c14/g{g}/{i}", "group": g, "index": i, "args": jargs, "outs": [[list(s), str(t)] for s, t in d["outs"]], "poisons": None, "size_class": d["size_class"], "mode": mode, "observed": {str(v): [recs[v][i]["sha"], recs[v][i]["exc"]] for v in recs}}
                except Exception as e:  # noqa: BLE001
                    errors.append(f"could not regenerate call g{g}/{i}: {e}")
                    continue
                add(name, "output-depends-on-allocator-state", f"call #{i} ({name}, {d['size_class']}) returns different bytes under allocator states {sorted(map(str, recs))}: unwritten output cell or out-of-range/uninitialised read", extra)
    # confirm each new finding by an isolated replay (history minimised to the single call)
    nviol = 0
    for f in known.get("findings", []):
        if f.get("property") == PROP and known_hits.get(f["id"]):
            print(f"KNOWN-FINDING: property={PROP} {f['what']} (seen {known_hits[f['id']]}x this run)")
    for p in found:
        ok, text = replay_payload(p, repo)
        p["isolated_replay"] = {"reproduced": ok, "text": text[:600]}
        path = driver.write_replay(PROP, p)
        nviol += 1
        print(f"violation [{p['tag']}] {p['violation']['message'][:300]}")
        if not ok:
            print(f"  note: did not reproduce as a single call ({text[:200]}); history position {p.get('index')} of group {p.get('group')}")
        print(f"VIOLATION property={PROP} replay={path}")

    programs_run = sorted({r["k"] for d in done.values() for r in d["records"]})
    samples = []
    for d in done.values():
        samples.extend(d.get("samples", [])[:1])
    hours = max(wall, 1e-9) / 3600
    boundary_complete = {}
    for g, names in enumerate(GROUPS):
        ent = min((done[(g, v)]["entries"] for v in variants if (g, v) in done), default=0)
        for n in names:
            boundary_complete[n] = ent // len(names) >= PROGRAMS[n].nboundary
    ev = {
        "property_id": PROP,
        "tier": tier,
        "seed": seed,
        "level": "exploration",
        "wall_s": round(wall, 2),
        "violations": nviol,
        "coverage": {
            "evaluations": calls,
            "distinct_nontrivial": len(tuples),
            "rule": (
                "one evaluation = one kernel call inside a seeded call history (entry i of group g is generated from "
                "Random(f'{VERIF_SEED}/c14/<group>/{i}'): boundary sweep first, then random in-contract inputs); every gufunc entry = 2 calls into "
                "recycled caller buffers pre-filled with two different poison patterns + 1 call into a numpy-allocated buffer, every njit entry = 2 calls. "
                "distinct_nontrivial = distinct (kernel, size class, poison, MALLOC_PERTURB_ byte) tuples whose output/allocation memory was measurably dirty "
                "(poison other than zeros, or a perturb byte confirmed by the in-process probe)."
            ),
            "samples": samples[:6],
            "history_entries": entries,
            "calls_per_hour": int(calls / hours),
            "seeds_per_hour": int(entries / hours),
            "programs": len(programs_run),
            "programs_run": programs_run,
            "programs_in_catalogue": len(PROGRAMS),
            "boundary_sweep_complete_per_program": boundary_complete,
            "allocator_states": [str(v) for v in variants],
            "faults_fired": {
                "out-poison (dirty caller buffers handed to gufuncs)": dirty,
                "buffer-reuse (buffers recycled from the pool)": reused,
                "strided-view (gufunc calls into every-other-element output views with canary gaps)": sum(d.get("buffers_strided", 0) for d in done.values()),
                "guard-band (output buffers carved out of canary-filled allocations, checked after every call)": dirty,
                "malloc-perturb (processes whose probe saw non-zero fresh memory)": sum(1 for (g, v), ok in perturb_ok.items() if ok and v != "unset"),
                "history re-issue of an earlier call": repeats,
                "assertions-on (NUMBA_BOUNDSCHECK=1 processes)": len(done),
            },
            "cross_process_calls_compared": compared,
            "allocator_probe": probes,
            "violation_counts_by_class": counts,
            "known_finding_hits": known_hits,
            "harness_errors": len(errors),
            "real_vs_stub": {
                "real": ["every compiled kernel (numba machine code, bounds checks compiled in)", "glibc malloc (perturbed through MALLOC_PERTURB_)", "NumPy gufunc dispatch"],
                "stub": ["output allocation for gufuncs -> caller-owned recycled poisoned buffers"],
            },
        },
        "assumptions": [
            "generators emit only in-contract inputs as worded in the property (DESIGN 4.1)",
            "negative indices that wrap inside an array are Python semantics, not out-of-bounds",
            "an exception other than IndexError is a refusal and only has to be repeatable",
            "sampling beyond the boundary sweep; clean means no violation among the calls counted here",
        ],
    }
    if write_ev:
        driver.write_evidence(PROP, ev)
    print(f"C14: {calls} kernel calls in {entries} history entries over {len(done)} processes ({len(programs_run)}/{len(PROGRAMS)} programs), {len(tuples)} distinct dirty (kernel,size,poison,perturb) tuples, {compared} calls compared across allocator states {variants}, wall {wall:.0f}s")
    for e in errors[:10]:
        print("HARNESS-ERROR:", e[:1500])
    if nviol:
        return 1
    if errors:
        return 2
    if calls == 0:
        print("HARNESS-ERROR: nothing was executed")
        return 2
    return 0


if __name__ == "__main__":
    try:
        main()
    except SystemExit:
        raise
    except BaseException as e:  # noqa: BLE001 - an uncaught exception is a harness error (exit 2), never a verdict
        import traceback

        traceback.print_exc()
        print(f"HARNESS-ERROR: {type(e).__name__}: {e}")
        sys.exit(2)
