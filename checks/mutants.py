#!/venv/bin/python
"""Sensitivity self-test: every patch in /verif/mutants must be reported by the check(s) of the
property it breaks (within a reduced budget), controls must stay silent.  Patches are applied to a
scratch worktree outside /repo and /verif (HDC_VERIF_REPO points the checks at it); evidence files
are not touched."""
import argparse
import glob
import os
import re
import subprocess
import sys
import time

VERIF = os.path.dirname(os.path.dirname(os.path.abspath(__file__)))
WT = os.environ.get("HDC_MUTANT_WT", "/var/tmp/hdc_mutant_wt")


def sh(cmd, **kw):
    return subprocess.run(cmd, shell=True, capture_output=True, text=True, **kw)


def main():
    ap = argparse.ArgumentParser()
    ap.add_argument("patterns", nargs="*", default=["*"])
    ap.add_argument("--budget", type=float, default=30)
    ap.add_argument("--dir", default=os.path.join(VERIF, "mutants"))
    a = ap.parse_args()
    a.dir = os.path.abspath(a.dir)
    sh(f"git -C /repo worktree remove --force {WT}")
    r = sh(f"git -C /repo worktree add --detach {WT} HEAD")
    if r.returncode:
        print(r.stderr)
        sys.exit(2)
    rows = []
    replay_bad = []
    try:
        files = sorted({f for p in a.patterns for f in glob.glob(os.path.join(a.dir, p + ".patch")) + glob.glob(os.path.join(a.dir, p, "patch.diff"))})
        for f in files:
            name = os.path.basename(f)[:-6] if f.endswith(".patch") else os.path.basename(os.path.dirname(f))
            head = open(f).read(600)
            m = re.search(r"# property: (\S+)", head)
            props = m.group(1).split(",") if m else None
            if props is None:
                meta = os.path.join(os.path.dirname(f), "meta.json")
                import json

                props = [json.load(open(meta))["property"]]
            expect = (re.search(r"# expect: (\S+)", head) or [None, "detect"])[1]
            sh("git checkout -q -- .", cwd=WT)
            r = sh(f"git apply {f}", cwd=WT)
            if r.returncode:
                rows.append((name, "APPLY-FAILED", r.stderr[:200]))
                print(rows[-1])
                continue
            env = dict(os.environ, HDC_VERIF_REPO=WT)
            verdicts = []
            for prop in props:
                t0 = time.time()
                chk = os.path.join(VERIF, "checks", prop.lower() + ".py")
                r = subprocess.run([sys.executable, chk, "--tier", "quick", "--budget", str(a.budget), "--no-evidence"], env=env, cwd=VERIF, capture_output=True, text=True)
                classes = sorted(set(re.findall(r"violation \[([^\]]+)\]", r.stdout)))
                # replay contract: a reported replay file reproduces (exit 1, same digest) on the patched
                # tree in a fresh process and does not reproduce on the unpatched /repo
                rp = re.findall(r"VIOLATION property=\S+ replay=(\S+)", r.stdout)[:2]
                rep = []
                for path in rp:
                    a1 = subprocess.run([sys.executable, chk, "--replay", path], env=env, cwd=VERIF, capture_output=True, text=True)
                    a2 = subprocess.run([sys.executable, chk, "--replay", path], env=dict(os.environ), cwd=VERIF, capture_output=True, text=True)
                    dig = "digest DIFFERS" not in a1.stdout
                    rep.append(f"replay:{a1.returncode}/{'same-digest' if dig else 'DIGEST-DIFFERS'}/clean-tree:{a2.returncode}")
                    if "VIOLATION property=" not in a1.stdout:
                        dig = False  # exit 1 without the line is not a reproduction
                    if a1.returncode != 1 or not dig or a2.returncode != 0:
                        replay_bad.append((name, path, a1.returncode, dig, a2.returncode, a1.stdout[-400:], a2.stdout[-700:]))
                verdicts.append((prop, r.returncode, classes + rep, round(time.time() - t0)))
            detected = any(v[1] == 1 for v in verdicts)
            harness = any(v[1] == 2 for v in verdicts)
            ok = (detected and expect == "detect") or (not detected and not harness and expect == "silent")
            rows.append((name, "OK" if ok else "MISSED" if expect == "detect" else "FALSE-ALARM", f"expect={expect} " + "; ".join(f"{p}: exit {rc} {cl} {t}s" for p, rc, cl, t in verdicts)))
            print(rows[-1])
            sys.stdout.flush()
    finally:
        sh(f"git -C /repo worktree remove --force {WT}")
    bad = [r for r in rows if r[1] != "OK"]
    print(f"{len(rows) - len(bad)}/{len(rows)} as expected; replay contract broken for {len(replay_bad)}: {replay_bad}")
    sys.exit(0 if not bad and not replay_bad else 1)


if __name__ == "__main__":
    main()
