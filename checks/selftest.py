#!/venv/bin/python
"""Self-tests of the simulator itself (never a property verdict).

determinism: the same keys executed (a) twice, (b) at another batch-worker count, (c) in a fresh
interpreter under another PYTHONHASHSEED must give identical event-log digests.
"""
import argparse
import json
import os
import subprocess
import sys
import tempfile

VERIF = os.path.dirname(os.path.dirname(os.path.abspath(__file__)))


def dump(tmp, tag, nproc, hashseed, n, only):
    out = os.path.join(tmp, f"{tag}.json")
    env = dict(os.environ)
    env["VERIF_HASHSEED"] = str(hashseed)
    env.pop("PYTHONHASHSEED", None)
    env.pop("HDC_VERIF_REEXEC", None)
    r = subprocess.run([sys.executable, os.path.join(VERIF, "checks", "c12.py"), "--dump", out, "--max-runs", str(n), "--nproc", str(nproc), "--only", only], env=env, cwd=VERIF, capture_output=True, text=True)
    if not os.path.exists(out):
        print(r.stdout[-2000:], r.stderr[-2000:])
        raise SystemExit(2)
    with open(out) as f:
        return json.load(f)


def main():
    ap = argparse.ArgumentParser()
    ap.add_argument("--n", type=int, default=15, help="runs per op per workload")
    ap.add_argument("--only", default="A,B,C,W")
    a = ap.parse_args()
    tmp = tempfile.mkdtemp(prefix="selftest_", dir=None)
    runs = [("a_16_h0", 16, 0), ("b_16_h0", 16, 0), ("c_4_h0", 4, 0), ("d_16_h77", 16, 77)]
    res = {}
    for tag, nproc, hs in runs:
        res[tag] = dump(tmp, tag, nproc, hs, a.n, a.only)
        print(tag, len(res[tag]["digests"]), "digests", "harness:", len(res[tag]["harness"]), "violations:", res[tag]["violations"])
    base = res["a_16_h0"]["digests"]
    bad = 0
    for tag in list(res)[1:]:
        other = res[tag]["digests"]
        if set(other) != set(base):
            print(f"{tag}: key sets differ ({len(set(other) ^ set(base))})")
            bad += 1
        diff = [k for k in base if k in other and base[k] != other[k]]
        print(f"{tag}: {len(diff)} of {len(base)} digests differ", diff[:5])
        if tag.endswith("_h0"):
            bad += len(diff)
        elif diff:
            # informational: dask.order breaks ties between independent tasks by set iteration, so the
            # *schedule space* seen under another interpreter hash seed differs for some graphs.  The
            # checks pin PYTHONHASHSEED (re-exec) and so does --replay, hence replay stays exact.
            print(f"  (hash-seed sensitivity comes from dask.order tie-breaks; pinned by the checks, not a harness fault)")
    import shutil

    shutil.rmtree(tmp, ignore_errors=True)
    print("DETERMINISM", "OK" if not bad else "BROKEN")
    sys.exit(0 if not bad else 2)


if __name__ == "__main__":
    main()
