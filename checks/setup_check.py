#!/venv/bin/python
"""setup_cmd: nothing to build -- verify the interpreter can import what the checks need."""
import os
import sys

sys.path.insert(0, os.environ.get("HDC_VERIF_REPO", "/repo"))
import dask  # noqa: E402,F401
import numba  # noqa: E402,F401
import numpy  # noqa: E402,F401
import xarray  # noqa: E402,F401

import hdc.algo  # noqa: E402

assert hasattr(sys, "monitoring"), "python >= 3.12 required (sys.monitoring)"
print("setup ok:", sys.version.split()[0], "numba", numba.__version__, "dask", dask.__version__, "hdc from", hdc.algo.__file__)
