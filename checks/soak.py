#!/venv/bin/python
"""False-alarm soak: run a check's quick tier under many VERIF_SEED values on the unchanged tree;
every non-zero exit is printed with its output tail.  (Helper, not a registered check.)"""
import argparse
import os
import subprocess
import sys
import time

VERIF = os.path.dirname(os.path.dirname(os.path.abspath(__file__)))
ap = argparse.ArgumentParser()
ap.add_argument("check", choices=["c12", "c14"])
ap.add_argument("--from-seed", type=int, default=100)
ap.add_argument("--n", type=int, default=20)
ap.add_argument("--tier", default="quick")
a = ap.parse_args()
bad = 0
for seed in range(a.from_seed, a.from_seed + a.n):
    t0 = time.time()
    env = dict(os.environ, VERIF_SEED=str(seed))
    r = subprocess.run([sys.executable, os.path.join(VERIF, "checks", a.check + ".py"), "--tier", a.tier, "--no-evidence"], env=env, cwd=VERIF, capture_output=True, text=True)
    tail = [l for l in r.stdout.splitlines() if not l.startswith("KNOWN-FINDING")][-1:]
    print(f"seed {seed}: exit {r.returncode} in {time.time() - t0:.0f}s  {tail[0][:160] if tail else ''}", flush=True)
    if r.returncode != 0:
        bad += 1
        print(r.stdout[-3000:])
        print(r.stderr[-1500:])
print(f"SOAK {a.check}: {a.n - bad}/{a.n} clean")
sys.exit(1 if bad else 0)
