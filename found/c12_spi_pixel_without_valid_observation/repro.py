"""A pixel whose only readings besides nodata are negative has no valid (non-nodata, >= 0)
observation; `gammastd` divided by that count and raised ZeroDivisionError, which aborts the whole
block in `gammastd_yxt`.  The in-memory `spi()` therefore raised for every pixel, and on dask-backed
data the outcome for a *good* pixel depended on whether the chunking put it into the same block as
the bad one.  Exit 1 while the defect is present."""
import sys

import numpy as np
import pandas as pd
import xarray as xr

import hdc.algo  # noqa: F401

T = 20
rng = np.random.default_rng(0)
data = np.full((T, 3, 1), -3000, dtype="int16")
data[:, 0, 0] = rng.gamma(1, 50, T).astype("int16")
data[:, 2, 0] = rng.gamma(1, 50, T).astype("int16")
data[5, 1, 0] = -8  # pixel (1, 0): nodata everywhere except one negative reading
da = xr.DataArray(data, dims=("time", "y", "x"), coords={"time": pd.date_range("2000-01-01", periods=T, freq="10D")})

outcomes = {}
for label, chunks in (("1-pixel chunks", {"y": 1}), ("chunks (2,1)", {"y": (2, 1)}), ("single chunk", {"y": 3})):
    lazy = da.chunk({"time": -1, "x": 1, **chunks}).hdc.algo.spi(nodata=-3000)
    try:
        outcomes[label] = lazy.isel(y=0, x=0).compute(scheduler="synchronous").values.tolist()
    except Exception as exc:  # pylint: disable=broad-except
        outcomes[label] = repr(exc)
try:
    outcomes["in-memory"] = da.hdc.algo.spi(nodata=-3000).isel(y=0, x=0).values.tolist()
except Exception as exc:  # pylint: disable=broad-except
    outcomes["in-memory"] = repr(exc)
for k, v in outcomes.items():
    print(f"{k:15s} pixel (0,0): {str(v)[:60]}")
ok = len({str(v) for v in outcomes.values()}) == 1 and not any(isinstance(v, str) for v in outcomes.values())
sys.exit(0 if ok else 1)
