"""Two *named* lazy zonal means over the same cube and the same zones pixels, differing only in the
zones' nodata marker (or in the number of zones, or in the cube's nodata attribute), received the
same dask key: computed in one graph, one of them silently returned the other's values.  The
in-memory calls are right.  Exit 1 while the defect is present."""
import sys

import dask
import numpy as np
import pandas as pd
import xarray as xr

import hdc.algo  # noqa: F401

t = pd.date_range("2020-01-01", periods=3)
a = xr.DataArray(np.arange(48, dtype="float32").reshape(3, 4, 4), dims=("time", "y", "x"), coords={"time": t}, attrs={"nodata": -1})
z = (np.arange(16).reshape(4, 4) % 3).astype("int16")
z1 = xr.DataArray(z, dims=("y", "x"), attrs={"nodata": 255})
z2 = xr.DataArray(z, dims=("y", "x"), attrs={"nodata": 0})
la = a.chunk({"time": -1, "y": 2, "x": 2})
r1 = la.hdc.zonal.mean(z1, [0, 1, 2], name="zm")
r2 = la.hdc.zonal.mean(z2, [0, 1, 2], name="zm")
e1 = a.hdc.zonal.mean(z1, [0, 1, 2])
e2 = a.hdc.zonal.mean(z2, [0, 1, 2])
c1, c2 = dask.compute(r1, r2, scheduler="synchronous")
ok = np.array_equal(c1.values, e1.values, equal_nan=True) and np.array_equal(c2.values, e2.values, equal_nan=True)
print("same dask key:", r1.data.name == r2.data.name, "| lazy == in-memory:", ok)
sys.exit(0 if ok else 1)
