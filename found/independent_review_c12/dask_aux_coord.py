"""In-memory cube that carries a dask-backed auxiliary (non-index) coordinate.

`is_dask_collection(xx)` is True for such a DataArray (xarray includes coordinates), but
`xx.data` is a numpy array, so the "dask" branch of autocorr (time-first) / zonal.mean crashes.
The same cube works when fully in memory, when fully dask-backed, and (autocorr) when time is not first.
Exit code 1 when the violation is present.
"""
import sys
sys.path.insert(0, "/tmp/wt_s31")
import numpy as np, pandas as pd, xarray as xr, dask.array as dsa
import hdc.algo
print(hdc.algo.__file__)

rng = np.random.default_rng(0)
T, Y, X = 8, 4, 3
cube = xr.DataArray(rng.integers(0, 100, (T, Y, X)).astype("int16"), dims=("time", "y", "x"),
                    coords={"time": pd.date_range("2000-01-01", periods=T)}, attrs={"nodata": -9999})
lon = dsa.from_array(np.arange(Y * X, dtype="f8").reshape(Y, X), chunks=2)
cube_aux = cube.assign_coords(lon=(("y", "x"), lon))          # data: numpy, coord: dask
zones = xr.DataArray((np.arange(Y * X).reshape(Y, X) % 3).astype("uint8"), dims=("y", "x"), attrs={"nodata": 255})
bad = 0
for label, f in [("autocorr", lambda d: d.hdc.algo.autocorr()), ("zonal.mean", lambda d: d.hdc.zonal.mean(zones, [0, 1, 2]))]:
    ref = f(cube)
    for lab2, d in [("numpy cube + dask aux coord", cube_aux), ("dask cube + dask aux coord ", cube_aux.chunk({"y": 2}))]:
        try:
            r = f(d).compute()
            ok = np.array_equal(ref.values, r.values, equal_nan=True)
            print(f"{label:10s} {lab2}: ok, equal={ok}")
            bad += not ok
        except Exception as e:  # noqa
            print(f"{label:10s} {lab2}: {type(e).__name__}: {e}")
            bad += 1
sys.exit(1 if bad else 0)
