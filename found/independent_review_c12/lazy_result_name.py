"""Result .name (and for autocorr also .attrs) differs between eager / lazy / dimension order.

autocorr on time-first data and zonal.mean(name=None) build `xarray.DataArray(data=<dask array>)`
without a name, so xarray adopts the dask array's graph key as the DataArray name.
Exit code 1 when the violation is present.
"""
import sys
sys.path.insert(0, "/tmp/wt_s31")
import numpy as np, pandas as pd, xarray as xr
import hdc.algo
print(hdc.algo.__file__)

rng = np.random.default_rng(0)
T, Y, X = 8, 4, 3
cube = xr.DataArray(rng.integers(0, 100, (T, Y, X)).astype("int16"), dims=("time", "y", "x"),
                    coords={"time": pd.date_range("2000-01-01", periods=T)}, attrs={"nodata": -9999}, name="band")
zones = xr.DataArray((np.arange(Y * X).reshape(Y, X) % 3).astype("uint8"), dims=("y", "x"), attrs={"nodata": 255})

e = cube.hdc.algo.autocorr()
l = cube.chunk({"y": 2}).hdc.algo.autocorr().compute()
o = cube.transpose("y", "x", "time").hdc.algo.autocorr()
print("autocorr eager (time,y,x): name=%r attrs=%r" % (e.name, e.attrs))
print("autocorr lazy  (time,y,x): name=%r attrs=%r" % (l.name, l.attrs))
print("autocorr eager (y,x,time): name=%r attrs=%r" % (o.name, o.attrs))
ze = cube.hdc.zonal.mean(zones, [0, 1, 2])
zl = cube.chunk({"y": 2}).hdc.zonal.mean(zones, [0, 1, 2]).compute()
print("zonal.mean eager: name=%r" % ze.name)
print("zonal.mean lazy : name=%r" % zl.name)
bad = (e.name != l.name) + (e.name != o.name) + (ze.name != zl.name)
sys.exit(1 if bad else 0)
