"""whitsvc(srange=<1 element>) reads out of bounds -> sgrid (and sometimes the smoothed values)
differ between eager and dask-backed runs / between chunkings / between repeated calls.

ws2doptv / ws2doptvp index llas[1], v[0] and lamids[0] although these arrays have length 1/0/0.
Exit code 1 when the violation is present.
"""
import sys
sys.path.insert(0, "/tmp/wt_s31")
import numpy as np, pandas as pd, xarray as xr
import hdc.algo
print(hdc.algo.__file__)

rng = np.random.default_rng(0)
T, Y, X = 12, 4, 3
cube = xr.DataArray(rng.integers(0, 200, (T, Y, X)).astype("int16"), dims=("time", "y", "x"),
                    coords={"time": pd.date_range("2000-01-01", periods=T, freq="10D")}, name="band")
srange = np.array([1.0])
bad = 0
for p in (None, 0.9):
    e1 = cube.hdc.whit.whitsvc(nodata=-9999, srange=srange, p=p)
    e2 = cube.hdc.whit.whitsvc(nodata=-9999, srange=srange, p=p)
    l1 = cube.chunk({"y": 1, "x": 1}).hdc.whit.whitsvc(nodata=-9999, srange=srange, p=p).compute()
    l2 = cube.chunk({"y": 2, "x": 3}).hdc.whit.whitsvc(nodata=-9999, srange=srange, p=p).compute()
    print(f"p={p}: sgrid eager      :", e1.sgrid.values.ravel()[:4])
    print(f"p={p}: sgrid lazy 1x1   :", l1.sgrid.values.ravel()[:4])
    print(f"p={p}: sgrid lazy 2x3   :", l2.sgrid.values.ravel()[:4])
    for lab, o in [("eager#2", e2), ("lazy 1x1", l1), ("lazy 2x3", l2)]:
        same = all(np.array_equal(e1[v].values, o[v].values, equal_nan=True) for v in ("band", "sgrid"))
        print(f"   eager#1 == {lab}: {same}")
        bad += not same
sys.exit(1 if bad else 0)
