"""zonal.mean: whether it works depends on which operand is dask-backed and on y/x block counts.

 a) in-memory cube + dask-backed zones  -> numba TypingError (dask array handed to njit function)
 b) dask cube + dask zones whose number of y/x blocks differ (both > 1) -> ValueError at compute
    while other chunkings of the very same data give the right answer.
Exit code 1 when the violation is present.
"""
import sys
sys.path.insert(0, "/tmp/wt_s31")
import numpy as np, pandas as pd, xarray as xr
import hdc.algo
print(hdc.algo.__file__)

rng = np.random.default_rng(0)
T, Y, X = 3, 6, 5
cube = xr.DataArray(rng.integers(0, 100, (T, Y, X)).astype("int16"), dims=("time", "y", "x"),
                    coords={"time": pd.date_range("2000-01-01", periods=T)}, attrs={"nodata": -9999})
zones = xr.DataArray((np.arange(Y * X).reshape(Y, X) % 3).astype("uint8"), dims=("y", "x"), attrs={"nodata": 255})
ids = [0, 1, 2]
ref = cube.hdc.zonal.mean(zones, ids)
bad = 0

def attempt(label, c, z):
    global bad
    try:
        r = c.hdc.zonal.mean(z, ids).compute()
        ok = np.array_equal(ref.values, r.values, equal_nan=True)
        print(f"{label}: computed, equal to eager = {ok}")
        bad += not ok
    except Exception as e:  # noqa
        print(f"{label}: {type(e).__name__}: {str(e).splitlines()[0][:90]}")
        bad += 1

attempt("numpy cube + numpy zones          ", cube, zones)
attempt("dask cube(y=3)  + numpy zones      ", cube.chunk({"y": 3}), zones)
attempt("dask cube(y=3)  + dask zones(y=3)  ", cube.chunk({"y": 3}), zones.chunk({"y": 3}))
attempt("dask cube(y=3)  + dask zones(1 blk)", cube.chunk({"y": 3}), zones.chunk())
attempt("numpy cube      + dask zones       ", cube, zones.chunk())                      # (a)
attempt("dask cube(y=3)  + dask zones(y=2)  ", cube.chunk({"y": 3}), zones.chunk({"y": 2}))  # (b)
attempt("dask cube(y=1,x=1)+dask zones(y=3) ", cube.chunk({"y": 1, "x": 1}), zones.chunk({"y": 3}))  # (b)
sys.exit(1 if bad else 0)
