"""zonal.mean ignores dimension NAMES of both the cube and the zones raster.

The same data, merely transposed (time,y,x) -> (time,x,y) [or zones (y,x) -> (x,y)],
gives different zonal means; with time not first, a spatial dim is silently used as "time".
Exit code 1 when the violation is present.
"""
import sys
sys.path.insert(0, "/tmp/wt_s31")
import numpy as np, pandas as pd, xarray as xr
import hdc.algo
print(hdc.algo.__file__)

rng = np.random.default_rng(0)
T, Y, X = 4, 4, 4          # square raster: no out-of-bounds access, just silently wrong numbers
cube = xr.DataArray(
    rng.integers(0, 100, (T, Y, X)).astype("int16"), dims=("time", "y", "x"),
    coords={"time": pd.date_range("2000-01-01", periods=T), "y": np.arange(Y), "x": np.arange(X)},
    attrs={"nodata": -9999},
)
zones = xr.DataArray((np.arange(Y * X).reshape(Y, X) // 6).astype("uint8"), dims=("y", "x"),
                     coords={"y": cube.y, "x": cube.x}, attrs={"nodata": 255})
ids = [0, 1, 2]
ref = cube.hdc.zonal.mean(zones, ids)

bad = 0
# 1. same cube, spatial dims swapped (compare by name: output has no y/x dims at all)
r = cube.transpose("time", "x", "y").hdc.zonal.mean(zones, ids)
same = np.array_equal(ref.values, r.values, equal_nan=True)
print("cube (time,x,y) == cube (time,y,x):", same)
bad += not same
# 2. same zones, transposed
r = cube.hdc.zonal.mean(zones.transpose("x", "y"), ids)
same = np.array_equal(ref.values, r.values, equal_nan=True)
print("zones (x,y) == zones (y,x):", same)
bad += not same
# 3. same, dask-backed
r = cube.chunk({"y": 2}).hdc.zonal.mean(zones.transpose("x", "y").chunk(), ids).compute()
same = np.array_equal(ref.values, r.values, equal_nan=True)
print("dask: zones (x,y) == zones (y,x):", same)
bad += not same
# 4. time not first: a spatial dimension is silently treated as time
r = cube.transpose("y", "x", "time").hdc.zonal.mean(zones, ids)
print("cube (y,x,time) -> result dims", r.dims, "(expected", ref.dims, "or an error)")
bad += r.dims != ref.dims
sys.exit(1 if bad else 0)
