"""whitint: the number of non-zero marks in `template` is never checked against the
length of the time dimension.  With more marks than time steps, ops/tinterpolate.py:33-38
reads x[jj] past the end of the pixel's series (numba, no bounds check): the values
picked up are those of the *neighbouring pixels* / whatever lies behind the buffer, so

  * the in-memory and the dask-backed result differ,
  * the result depends on the chunking of y/x and on the dimension order,
  * a pixel's result changes when only *another* pixel is modified.

Expected: identical failure (ValueError) on both paths, like the labels/template
length mismatch which the gufunc signature catches.
Exit status 1 when the defect is present.
"""
import sys
sys.path.insert(0, "/tmp/wt_s34")
import numpy as np, pandas as pd, xarray as xr, dask
import hdc.algo
print("hdc.algo from", hdc.algo.__file__)
dask.config.set(scheduler="synchronous")

nt, ny, nx = 6, 4, 5
rng = np.random.default_rng(0)
cube = xr.DataArray(
    rng.integers(100, 8000, (ny, nx, nt)).astype("int16"),
    dims=("y", "x", "time"),
    coords={"time": pd.date_range("2000-01-01", periods=nt, freq="10D")},
)
ndays = 55
labels = np.repeat(np.arange(6), 10)[:ndays].astype("int32")
template = np.zeros(ndays)
template[::5] = 1          # 11 marks, but only 6 time steps

bad = 0
eager = cube.hdc.whit.whitint(labels, template)
for chunks in ({"y": -1, "x": -1}, {"y": 2, "x": 3}, {"y": 1, "x": 1}):
    lazy = cube.chunk({"time": -1, **chunks}).hdc.whit.whitint(labels, template).compute()
    n = int((eager.values != lazy.values).sum())
    print(f"chunks={chunks}: {n} of {eager.size} cells differ from in-memory result")
    bad += n

# pixel independence: change pixel (0,1) only, look at pixel (0,0)
cube2 = cube.copy(deep=True)
cube2[0, 1, :] = 50
e2 = cube2.hdc.whit.whitint(labels, template)
dep = not np.array_equal(eager.values[0, 0], e2.values[0, 0])
print("pixel (0,0) result changed after modifying only pixel (0,1):", dep)
print("  before:", eager.values[0, 0], "\n  after: ", e2.values[0, 0])

if bad or dep:
    print("DEFECT: whitint silently reads out of bounds when template marks != time length")
    sys.exit(1)
print("ok")
