"""zonal.mean: in-memory cube + dask-backed zones raster crashes (numba TypingError),
while the same call works when the cube is dask-backed or the zones are in memory.

accessors.py:837 decides the dask path from xx.data only; in the else branch
(accessors.py:858-865) zones.data -- a dask array -- is handed straight to the njit
function do_mean.
Exit status 1 when the defect is present.
"""
import sys
sys.path.insert(0, "/tmp/wt_s34")
import numpy as np, pandas as pd, xarray as xr, dask
import hdc.algo
print("hdc.algo from", hdc.algo.__file__)
dask.config.set(scheduler="synchronous")

rng = np.random.default_rng(0)
cube = xr.DataArray(
    rng.integers(0, 100, (6, 4, 5)).astype("int16"),
    dims=("time", "y", "x"),
    coords={"time": pd.date_range("2000-01-01", periods=6, freq="10D")},
    attrs={"nodata": -3000},
)
zones = xr.DataArray(rng.integers(0, 3, (4, 5)).astype("int16"), dims=("y", "x"), attrs={"nodata": -1})
ids = [0, 1, 2]

ref = cube.hdc.zonal.mean(zones, ids)                              # all in memory
lazy = cube.chunk({"time": 2}).hdc.zonal.mean(zones.chunk(), ids)  # all lazy
assert np.array_equal(ref.values, lazy.values, equal_nan=True)
lazy2 = cube.chunk({"time": 2}).hdc.zonal.mean(zones, ids)         # lazy cube, in-memory zones
assert np.array_equal(ref.values, lazy2.values, equal_nan=True)

try:
    mixed = cube.hdc.zonal.mean(zones.chunk(), ids)                # in-memory cube, lazy zones
    mixed = mixed.compute()
except Exception as e:  # numba.core.errors.TypingError
    print("DEFECT: in-memory cube + dask zones raised", type(e).__name__, str(e).splitlines()[0:2])
    sys.exit(1)
assert np.array_equal(ref.values, mixed.values, equal_nan=True)
print("ok")
