"""Concurrent calls of the parallel=True, nogil=True kernel ws2doptvplc_tyx from several Python threads.

usage: tyx_concurrent.py [layer] [nthreads] [first|warm] [calls]
Run as a fresh process; exit code 0 and "OK" when all results equal the
sequential result.
"""
import os
import sys
import threading

layer = sys.argv[1] if len(sys.argv) > 1 else "workqueue"
nthreads = int(sys.argv[2]) if len(sys.argv) > 2 else 4
mode = sys.argv[3] if len(sys.argv) > 3 else "warm"
calls = int(sys.argv[4]) if len(sys.argv) > 4 else 20
if layer != "default":
    os.environ["NUMBA_THREADING_LAYER"] = layer

sys.path.insert(0, "/tmp/wt_s32")
import numba  # noqa: E402
import numpy as np  # noqa: E402

import hdc.algo  # noqa: E402

print(hdc.algo.__file__)
f = sys.modules["hdc.algo.ops.ws2doptvplc"].ws2doptvplc_tyx
rng = np.random.default_rng(0)
cubes = [rng.integers(0, 3000, (36, 40, 30)).astype("int16") for _ in range(nthreads)]
for c in cubes:
    c[rng.random(c.shape) < 0.1] = -9999

ref = None
if mode == "warm":
    ref = [f(c, 0.9, -9999) for c in cubes]
    print("layer:", numba.threading_layer(), flush=True)

res = [None] * nthreads
errs = []
bar = threading.Barrier(nthreads)


def work(i):
    bar.wait()
    try:
        for _ in range(calls):
            r = f(cubes[i], 0.9, -9999)
            if res[i] is not None:
                assert (r[0] == res[i][0]).all() and (r[1] == res[i][1]).all()
            res[i] = r
    except BaseException as e:  # noqa
        errs.append(repr(e))


sys.setswitchinterval(1e-6)
ths = [threading.Thread(target=work, args=(i,)) for i in range(nthreads)]
[t.start() for t in ths]
[t.join() for t in ths]
if ref is None:
    ref = [f(c, 0.9, -9999) for c in cubes]
    print("layer:", numba.threading_layer(), flush=True)
bad = [i for i in range(nthreads)
       if res[i] is None or not ((res[i][0] == ref[i][0]).all() and (res[i][1] == ref[i][1]).all())]  # fmt: skip
print("errors:", errs, "mismatching threads:", bad)
print("OK" if not errs and not bad else "FAILED")
sys.exit(0 if not errs and not bad else 1)
