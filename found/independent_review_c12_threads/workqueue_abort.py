"""Reproducer: ws2doptvplc_tyx (numba parallel=True, nogil=True) kills the interpreter when it is
called from more than one thread while numba uses the 'workqueue' threading layer.

workqueue is numba's fallback layer (used whenever neither TBB nor an OpenMP runtime can be
loaded, e.g. plain pip wheels on macOS / musl, or NUMBA_THREADING_LAYER=workqueue).

Three variants (argv[1]):
  threads : 2 plain Python threads, ONE call each, behind a barrier (kernel already compiled)
  first   : same, but the call is the FIRST call (compilation + launch overlap)
  dask    : the natural use -- da.map_blocks(ws2doptvplc_tyx) on a 4-chunk cube computed with
            scheduler="threads", num_workers=2

Expected: prints "survived"; exit code 0.
Observed: "Numba workqueue threading layer is terminating: Concurrent access has been detected."
          and the process dies with SIGABRT (exit code 134 / -6); no Python exception can be caught.

Observed rate (20 fresh processes per variant): threads 20/20, first 20/20, dask 20/20 died.
With NUMBA_THREADING_LAYER=omp (default on this machine) the same calls pass and equal sequential results.

Diagnosis
  where : hdc/algo/ops/ws2doptvplc.py:171  @lazycompile(numba.jit(nopython=True, parallel=True, nogil=True))
          on ws2doptvplc_tyx; numba.prange at line 196.
  shared: numba's process-global workqueue (numba/np/ufunc/workqueue.c), explicitly not thread-safe.
  interleaving: nogil=True releases the GIL for the whole kernel; T1 is inside the prange launch, T2 (plain
          thread or dask threaded-scheduler worker) enters the prange launch -> numba detects concurrent
          access and calls abort().
  The library neither selects a thread-safe layer (numba.config.THREADING_LAYER="threadsafe"), nor guards the
  launch with a lock, nor documents the restriction, while nogil=True advertises the kernel for threaded use.
  Scope: only parallel=True kernel in the library; no .hdc accessor uses it (direct callers only).

Run:  python workqueue_abort.py            (driver: runs every variant 20x in fresh processes)
      python workqueue_abort.py threads    (one attempt)
"""
import os
import subprocess
import sys

VARIANTS = ("threads", "first", "dask")


def attempt(variant):
    os.environ["NUMBA_THREADING_LAYER"] = "workqueue"
    sys.path.insert(0, "/tmp/wt_s32")
    import threading

    import numpy as np

    import hdc.algo

    assert hdc.algo.__file__.startswith("/tmp/wt_s32/"), hdc.algo.__file__
    tyx = sys.modules["hdc.algo.ops.ws2doptvplc"].ws2doptvplc_tyx
    rng = np.random.default_rng(0)
    cube = rng.integers(0, 3000, (36, 64, 64)).astype("int16")

    if variant == "dask":
        import dask.array as da

        d = da.from_array(cube, chunks=(-1, 32, 32))
        tyx(cube[:, :2, :2], 0.9, -9999)  # warm: compile outside of the pool
        out = da.map_blocks(lambda b: tyx(b, 0.9, -9999)[0], d, dtype="int16")
        out.compute(scheduler="threads", num_workers=2)
    else:
        if variant == "threads":
            tyx(cube[:, :2, :2], 0.9, -9999)  # warm
        bar = threading.Barrier(2)

        def work():
            bar.wait()
            tyx(cube, 0.9, -9999)

        ths = [threading.Thread(target=work) for _ in range(2)]
        [t.start() for t in ths]
        [t.join() for t in ths]
    print("survived")


def driver(n=20):
    bad_total = 0
    for v in VARIANTS:
        rcs = []
        for _ in range(n):
            p = subprocess.run([sys.executable, __file__, v], capture_output=True, text=True)
            rcs.append(p.returncode)
        bad = sum(rc != 0 for rc in rcs)
        bad_total += bad
        print(f"variant={v}: {bad}/{n} fresh processes died, return codes {sorted(set(rcs))}")
        if bad:
            print("   last stderr:", p.stderr.strip().splitlines()[:1])
    sys.exit(1 if bad_total else 0)


if __name__ == "__main__":
    if len(sys.argv) > 1:
        attempt(sys.argv[1])
    else:
        driver()
