import gdb
gdb.execute("set pagination off")
gdb.execute("set breakpoint pending on")
gdb.execute("set print thread-events off")
armed = {"on": False, "wp": None, "n": 0, "seen": {}}

class RaiseBP(gdb.Breakpoint):
    def stop(self):
        armed["on"] = True
        return False

class WarnBP(gdb.Breakpoint):
    def stop(self):
        if not armed["on"]:
            return False
        armed["on"] = False
        try:
            ts = gdb.parse_and_eval("_PyRuntime.interpreters.head->threads.head")
            occurred = int(ts["current_exception"])
        except gdb.error as e:
            print("eval error", e); return False
        if not occurred:
            return False
        armed["n"] += 1
        # watch the current_exception slot
        addr = ts["current_exception"].address
        if armed["wp"] is not None:
            try:
                armed["wp"].flush(); armed["wp"].delete()
            except Exception: pass
        armed["wp"] = ExcWatch("*(void**)%d" % int(addr), gdb.BP_WATCHPOINT, gdb.WP_WRITE)
        return False

class ExcWatch(gdb.Breakpoint):
    def stop(self):
        bt = []
        f = gdb.newest_frame()
        for i in range(14):
            if f is None: break
            bt.append(str(f.name()))
            f = f.older()
        key = " < ".join(bt[:7])
        try:
            ts = gdb.parse_and_eval("_PyRuntime.interpreters.head->threads.head")
            val = int(ts["current_exception"])
        except gdb.error:
            val = -1
        self.seq = getattr(self, "seq", [])
        self.seq.append(("NULL" if val == 0 else "SET") + " by " + key)
        if len(self.seq) >= 8 or "ufunc_generic_fastcall" not in " ".join(bt):
            self.flush()
            gdb.post_event(lambda wp=self: (wp.delete() if wp.is_valid() else None))
            armed["wp"] = None
        return False
    def flush(self):
        k = "\n      ".join(getattr(self, "seq", []))
        armed["seen"][k] = armed["seen"].get(k, 0) + 1
        if armed["seen"][k] == 1:
            print("SEQUENCE #%d:\n      %s" % (armed["n"], k), flush=True)

RaiseBP("numba_do_raise")
WarnBP("PyErr_WarnEx")
gdb.execute("run")
print("SUMMARY of watch hits:")
for k, v in armed["seen"].items():
    print(v, k)
