"""spi(dtype=...) and rolling.sum(dtype=...): the `dtype` argument is ignored by the kernels (spi always
returns int16 -- ops/stats.py:232, gufunc signature :255; rolling_sum always float32 -- :540) but it IS
used to build the dask meta (accessors.py:536, :574, :771).  A lazy result therefore DECLARES one dtype
and computes another; eager and lazy disagree on .dtype before compute, and lazy astype() to the declared
dtype is a silent no-op.  Minor (metadata), values are equal.  exit 1 = present."""
import sys
sys.path.insert(0, "/tmp/wt_s35")
import numpy as np, pandas as pd, xarray as xr
import hdc.algo; print(hdc.algo.__file__)
T = 24
x = xr.DataArray(np.random.default_rng(0).integers(1, 500, (2, 2, T)).astype("int16"), dims=("y", "x", "time"),
                 coords={"time": pd.date_range("2020-01-01", periods=T, freq="MS")}, attrs={"nodata": -9999})
xd = x.chunk({"y": 1})
bad = 0
for name, f in (("spi(dtype='float32')", lambda a: a.hdc.algo.spi(dtype="float32")),
                ("spi(groups, dtype='float32')", lambda a: a.hdc.algo.spi(groups=np.arange(T) % 12, dtype="float32")),
                ("rolling.sum(3, dtype='int16')", lambda a: a.hdc.rolling.sum(3, dtype="int16")),
                ("rolling.sum(3, dtype='float64')", lambda a: a.hdc.rolling.sum(3, dtype="float64"))):
    e, l = f(x), f(xd)
    c = l.compute()
    cast = l.astype(l.dtype).compute().dtype
    print(f"{name}: eager {e.dtype} | lazy declares {l.dtype} | computes {c.dtype} | lazy.astype(declared).compute() -> {cast}")
    bad |= (l.dtype != c.dtype)
sys.exit(1 if bad else 0)
