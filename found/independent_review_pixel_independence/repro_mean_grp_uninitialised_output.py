"""mean_grp: output of a pixel contains UNINITIALISED memory (differs between a 1x1 cube and the same
pixel inside a cube, and between runs) when the group ids are not exactly 0..n-1 -- e.g. month numbers
1..12.  The docstring demands 0..n-1, but nothing checks it and nothing fails: the accessor computes
num_groups = np.unique(groups).size (accessors.py:727) and the gufunc only fills `yy[groups == grp]`
for grp in range(num_groups) (ops/stats.py:515-534), so every time step whose id >= num_groups keeps
whatever np.empty() handed out (stale results of other pixels / earlier calls).
Precondition violation, hence lower severity -- but the failure mode is silent cross-pixel leakage.
exit 1 = present."""
import sys
sys.path.insert(0, "/tmp/wt_s35")
import numpy as np, pandas as pd, xarray as xr
import hdc.algo; print(hdc.algo.__file__)
T = 24
time = pd.date_range("2020-01-01", periods=T, freq="MS")
months = np.asarray(time.month, dtype="int16")            # 1..12  (not 0..11)
rng = np.random.default_rng(0)
tgt = rng.integers(1, 1000, T).astype("int16")
def cube(rows, shape):
    return xr.DataArray(np.array(rows, "int16").reshape(*shape, T), dims=("y", "x", "time"), coords={"time": time}, attrs={"nodata": -9999})
outs = set()
for k in range(6):
    nb = [rng.integers(1, 30000, T) for _ in range(11)]
    _ = np.random.default_rng(k).random(50000).astype("float32").sum()   # churn the allocator
    c = cube(nb[:5] + [tgt] + nb[5:], (3, 4))
    r = c.hdc.algo.mean_grp(months).values[1, 1]
    outs.add(r.tobytes())
    print("december slots of the SAME pixel:", r[months == 12])
a = cube([tgt], (1, 1)).hdc.algo.mean_grp(months).values[0, 0]
outs.add(a.tobytes())
print("alone:", a[months == 12])
expected = tgt[months == 12].mean()
print("expected december mean:", expected, "| distinct outputs for one and the same pixel:", len(outs))
bad = len(outs) > 1 or not np.allclose(a[months == 12], expected)
sys.exit(1 if bad else 0)
