"""whitint: a pixel's interpolated series depends on its NEIGHBOUR when `template` has more non-zero
entries than the cube has time steps.  tinterpolate (ops/tinterpolate.py:31-37) copies x[jj] for every
non-zero template entry without bounding jj by len(x); numba does no bounds checking, so jj runs past
the pixel's own series into the next pixel's memory (the last pixel reads past the array).  The accessor
(accessors.py:430-458) never checks count_nonzero(template) == time.size.  Precondition violation
(undocumented), silent.  exit 1 = present."""
import sys
sys.path.insert(0, "/tmp/wt_s35")
import numpy as np, pandas as pd, xarray as xr
import hdc.algo; print(hdc.algo.__file__)
T = 12
time = pd.date_range("2020-01-01", periods=T, freq="10D")
ndays = (T - 1) * 10 + 1
template = np.zeros(ndays); template[::10] = 1            # correct: T ones
labels = (np.arange(ndays) // 5).astype("int32")
rng = np.random.default_rng(0)
tgt = rng.integers(100, 1000, T)
def run(neigh, tmpl):
    c = xr.DataArray(np.array([tgt, neigh], "int16").reshape(1, 2, T), dims=("y", "x", "time"), coords={"time": time})
    return c.hdc.whit.whitint(labels, tmpl).values[0, 0]
n1, n2 = np.zeros(T), np.full(T, 30000)
ok = np.array_equal(run(n1, template), run(n2, template))
print("correct template: target pixel independent of neighbour:", ok)
t2 = template.copy(); t2[1:4] = 1                         # three ones too many
a, b = run(n1, t2), run(n2, t2)
print("template with 3 extra ones, neighbour=0    :", a[-6:])
print("template with 3 extra ones, neighbour=30000:", b[-6:])
dep = not np.array_equal(a, b)
print("target pixel depends on neighbour:", dep)
sys.exit(1 if dep else 0)
