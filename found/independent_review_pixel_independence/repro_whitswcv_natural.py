"""Uninstrumented evidence for repro_whitswcv_silent_garbage.py: runs the plain harness sequence
(whits(sg=...) then whitswcv on float64, T=7) in fresh processes until a process is hit in which
the eager accessor call raises SystemError but the dask compute of the SAME data returns values.
Roughly every second process is affected (address-space dependent). exit 1 = observed."""
import os, subprocess, sys
here = os.path.dirname(os.path.abspath(__file__))
env = dict(os.environ, HDC_T="7")
for i in range(10):
    out = subprocess.run([sys.executable, os.path.join(here, "probe21.py"), "whits_sg[float64],whitswcv[float64]"],
                         cwd=here, env=env, capture_output=True, text=True).stdout
    hits = [l for l in out.splitlines() if "!! VIOLATION" in l]
    print(f"process {i}: {len(hits)} eager-raises/dask-returns disagreements")
    if hits:
        print(hits[0][:330])
        sys.exit(1)
sys.exit(0)
