"""whitswcv (robust=True, the default): one NaN/inf/huge pixel can make the call RETURN
uninitialised memory for that pixel AND for every pixel after it in the same block,
instead of raising -- and eager / lazy disagree.

Known part (not the point here): ws2dwcv / ws2dwcvp raise for such a pixel because
`y_temp` is never assigned when no GCV score is < 1e15
(hdc/algo/ops/ws2dwcv.py:83-97, hdc/algo/ops/ws2dwcvp.py:87-101:  `r_arr = y - y_temp`).

New part: the kernels are numba *gufuncs*.  When the kernel raises for pixel k, numba's
gufunc wrapper sets the Python exception, STOPS the pixel loop (pixels k+1.. are never
computed, their output slots stay np.empty garbage) and returns to NumPy.  NumPy does not
look at the pending exception before handling the FP status flags the kernel left behind
(NaN arithmetic -> "invalid value encountered in ws2dwcv"), so it calls PyErr_WarnEx()
with a live exception.  What happens then is undefined:
  * no __warningregistry__ yet in numba/np/ufunc/gufunc.py  -> original ValueError surfaces
  * registry exists                                          -> SystemError
  * registry exists and CPython's type-attribute cache misses for (str, '__class__')
    [_PyType_Lookup -> PyErr_Clear()]                         -> the exception is SWALLOWED,
    the warning is issued normally, and whitswcv returns a Dataset that contains
    uninitialised memory (in practice: stale results of *other* pixels).
The third case happens "naturally" in roughly half of all processes for
   HDC_T=7 python probe21.py "whits_sg[float64],whitswcv[float64]"        (4 of 6 runs)
   HDC_T=7 python test_A.py "[float64]" 1                                 (3 of 3 runs)
(seen through the public accessor, eager raises SystemError, the 1-pixel-chunk dask
compute returns values).  Which process is hit depends on address-space layout (the type
cache is direct mapped on type version ^ name address), so to be deterministic this script
evicts the cache right before the kernel runs with sys._clear_type_cache() -- that is the
only instrumentation; the library is untouched.

exit 1 = defect present.
"""
import sys

sys.path.insert(0, "/tmp/wt_s35")
import warnings

import numpy as np
import pandas as pd
import xarray as xr
import dask

import hdc.algo
from hdc.algo import ops

print(hdc.algo.__file__)
assert hdc.algo.__file__.startswith("/tmp/wt_s35/")
dask.config.set(scheduler="synchronous")
warnings.simplefilter("ignore")

T = 24
rng = np.random.default_rng(0)
time = pd.date_range("2020-01-01", periods=T, freq="MS")
SR = np.arange(-2, 2.2, 0.4)


def cube(rows):
    return xr.DataArray(
        np.array(rows, dtype="float64").reshape(1, len(rows), T),
        dims=("y", "x", "time"),
        coords={"time": time},
    )


good = [rng.integers(1, 1000, T).astype("float64") for _ in range(4)]
bad = good[0].copy()
bad[4] = np.nan  # one NaN observation; inf or 1e30-sized values behave the same
ramp = np.arange(T) * 10.0

# 1. any earlier pixel that merely sets FP flags creates the warning registry (this is ordinary use)
cube([ramp]).hdc.whit.whitswcv(nodata=-9999, srange=SR)

alone = [cube([g]).hdc.whit.whitswcv(nodata=-9999, srange=SR).band.values[0, 0] for g in good]

# 2. simulate the (naturally occurring) type-cache eviction right before the kernel runs
_orig = ops.ws2dwcv


def _evicting(*a, **k):
    sys._clear_type_cache()
    return _orig(*a, **k)


ops.ws2dwcv = _evicting

rows = [good[0], good[1], bad, good[2], good[3]]  # bad pixel in the middle
x = cube(rows)
status = 0
for label, xx in (("eager", x), ("dask 1 block", x.chunk({"x": -1})), ("dask 1-pixel chunks", x.chunk({"x": 1}))):
    try:
        r = xx.hdc.whit.whitswcv(nodata=-9999, srange=SR).compute()
    except BaseException as e:  # noqa
        print(f"{label}: raised {type(e).__name__} (fine)")
        continue
    status = 1
    v = r.band.values[0]
    print(f"{label}: RETURNED although pixel 2 makes the kernel raise")
    for i, exp in ((0, alone[0]), (1, alone[1]), (3, alone[2]), (4, alone[3])):
        print(f"   good pixel {i}: equals its stand-alone result: {np.array_equal(v[i], exp)}")
    print(f"   bad pixel 2 output (uninitialised memory): {v[2][:8]} ... sgrid={r.sgrid.values[0, 2]}")

ops.ws2dwcv = _orig
# reference behaviour without eviction
try:
    x.hdc.whit.whitswcv(nodata=-9999, srange=SR)
    print("no eviction: returned")
except BaseException as e:  # noqa
    print(f"no eviction: raised {type(e).__name__}")

print("DEFECT PRESENT" if status else "not reproduced")
sys.exit(status)
