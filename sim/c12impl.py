"""C12 check implementation: job functions, aggregation, replay, evidence."""

from __future__ import annotations

import copy
import json
import os
import random
import sys
import time
import traceback
import warnings

import numpy as np

from . import driver
from . import scenarios as S

PROP = "C12"


# ---------------------------------------------------------------------------
# aggregation
# ---------------------------------------------------------------------------


class Agg:
    def __init__(self):
        self.d = {
            "runs": 0,
            "runs_by_workload": {},
            "steps": 0,
            "tasks": 0,
            "sim_threads": 0,
            "outcomes": {},
            "faults_fired": {},
            "probes": {},
            "digests": set(),
            "configs": set(),
            "violations": [],  # payload dicts (unknown ones, minimised)
            "violation_counts": {},
            "known_hits": {},
            "harness": [],
            "samples": [],
            "minimise_execs": 0,
            "wall": {},
            "digest_map": {},
            "runs_by_op": {},
        }

    def bump(self, table, key, n=1):
        t = self.d[table]
        t[key] = t.get(key, 0) + n

    def merge(self, other):
        o = other
        for k in ("runs", "steps", "tasks", "sim_threads", "minimise_execs"):
            self.d[k] += o[k]
        for table in ("runs_by_workload", "outcomes", "faults_fired", "probes", "violation_counts", "known_hits", "wall", "runs_by_op"):
            for k, v in o[table].items():
                self.bump(table, k, v)
        self.d["digests"] |= set(o["digests"])
        self.d["configs"] |= set(o["configs"])
        self.d["violations"].extend(o["violations"])
        self.d["harness"].extend(o["harness"])
        self.d["digest_map"].update(o.get("digest_map", {}))
        for s in o["samples"]:
            if len(self.d["samples"]) < 6:
                self.d["samples"].append(s)

    def export(self):
        d = dict(self.d)
        d["digests"] = sorted(d["digests"])
        d["configs"] = sorted(d["configs"])
        return d


def _scn_summary(scn):
    T, Y, X = scn["cube"]["shape"]
    return {
        "op": scn["op"],
        "params": {k: v for k, v in scn["params"].items() if k not in ("template", "labels")},
        "cube": {"shape": [T, Y, X], "dtype": scn["cube"]["dtype"], "nodata_pattern": scn.get("pattern")},
        "layout": scn["layout"],
        "chunks": scn["chunks"],
        "time_chunks": scn.get("time_chunks"),
        "secondary_backing": scn.get("secondary_backing"),
        "secondary_chunks": scn.get("secondary_chunks"),
        "pipe": scn.get("pipe"),
    }


def vkey(scn, vclass):
    p = scn["params"]
    return {
        "op": scn["op"],
        "class": vclass,
        "cube_dtype": scn["cube"]["dtype"],
        "variant": p.get("variant"),
        "layout0": scn["layout"][0],
        "float": p.get("float"),
        "nodata_attr": p.get("nodata_attr"),
        "dtype_arg": p.get("dtype"),
        "time_chunked": bool(scn.get("time_chunks")),
    }


def chunk_class(scn):
    T, Y, X = scn["cube"]["shape"]

    def c(parts, n):
        if len(parts) == 1:
            return "1"
        if all(p == 1 for p in parts):
            return "px"
        return "rag"

    return c(scn["chunks"]["y"], Y) + "/" + c(scn["chunks"]["x"], X)


# ---------------------------------------------------------------------------
# Workload A
# ---------------------------------------------------------------------------


def gen_A(key, op):
    from . import runner

    rng = random.Random(key)
    scn = S.gen_scenario(rng, ops=[op])
    T, Y, X = scn["cube"]["shape"]
    r = rng.random()
    focus_pair = "/focus-pair-" in key
    if focus_pair:
        r = 0.45
    if r < 0.12 and T >= 2:
        parts = S.composition(rng, T)
        if len(parts) < 2:
            parts = [T // 2, T - T // 2]
        scn["time_chunks"] = parts
        if rng.random() < 0.5 and op not in ("dekad", "lroo", "croo"):
            # focus: a time chunk that holds nothing but steps without valid observations
            cube = S.j2arr(scn["cube"])
            if cube.dtype.kind == "f" or True:
                k = rng.randrange(len(parts))
                a = sum(parts[:k])
                fill = scn["nodata"]
                if op == "autocorr" and scn["params"].get("float"):
                    fill = np.nan
                cube[a : a + parts[k], :, :] = fill
                scn["cube"] = S.arr2j(cube)
                scn["pattern"] = str(scn.get("pattern")) + "+empty-chunk"
        if rng.random() < 0.3 and op != "dekad":
            scn["pipe"] = S.gen_pipe(rng, scn)  # equal-or-raise still applies; the consumer sees time blocks
    elif r < 0.24 and any(b == "dask" for b in scn["secondary_backing"].values()):
        scn["secondary_chunks"] = {
            name: {"y": S.composition(rng, Y), "x": S.composition(rng, X)}
            for name, b in scn["secondary_backing"].items()
            if b == "dask"
        }
    elif r < 0.46:
        # a second lazy result of the same operation (other data, drawn parameters) computed in one graph
        like = {k: scn["params"][k] for k in ("nodata_via", "float", "nodata_attr") if k in scn["params"]}
        p2 = S.gen_scenario(rng, force={"op": op, "shape": (T, Y, X), "dtype": scn["cube"]["dtype"], "layout": scn["layout"], "like": like})
        p2["chunks"] = {"y": S.composition(rng, Y), "x": S.composition(rng, X)} if rng.random() < 0.5 else scn["chunks"]
        p2["secondary_backing"] = dict(scn["secondary_backing"]) if set(p2["secondary"]) == set(scn["secondary"]) else p2["secondary_backing"]
        if rng.random() < 0.5:
            # focus: identical parameters, rasters, chunking and naming, different data -- what a
            # too-coarse cache / dask task name would confuse
            # (parameters and secondary rasters travel together: zone ids must stay < nz)
            p2["params"] = json.loads(json.dumps(scn["params"]))
            p2["secondary"] = json.loads(json.dumps(scn["secondary"]))
            p2["secondary_backing"] = dict(scn["secondary_backing"])
            p2["secondary_order"] = dict(scn.get("secondary_order") or {})
            p2["chunks"] = scn["chunks"]
            if op == "zonal_mean":
                scn["params"]["name"] = p2["params"]["name"] = "zm"
        if rng.random() < 0.5 or focus_pair:
            # focus (s45): the SAME lazy cube feeds both results; they differ in parameters and/or in
            # the content of the secondary rasters only -- what a task name / cache key that covers
            # the data but not every other argument would confuse
            p2 = json.loads(json.dumps({k: v for k, v in scn.items() if k not in ("pair", "pipe")}))
            p2["share_cube"] = True
            mode = rng.random()
            if op == "zonal_mean" and mode < 0.3 and not (S.j2arr(p2["secondary"]["zones"]) == p2["params"]["znodata"]).any():
                # (only when no cell carries the old marker: such a cell would become a zone id
                # outside 0..n-1, i.e. out-of-contract input -- it crashed a worker once, 9.4)
                mode = 0.9  # every kernel argument, not only the arrays, is part of a task's identity
            if mode < 0.5 and p2.get("secondary"):
                # same parameters, every secondary raster shuffled (same value set, dtype, shape)
                for name in sorted(p2["secondary"]):
                    a = S.j2arr(p2["secondary"][name])
                    flat = a.reshape(-1).copy()
                    prm = list(range(flat.size))
                    rng.shuffle(prm)
                    p2["secondary"][name] = S.arr2j(flat[prm].reshape(a.shape))
            elif mode < 0.85:
                c = S.gen_scenario(rng, force={"op": op, "shape": (T, Y, X), "dtype": scn["cube"]["dtype"], "layout": scn["layout"], "like": like, "no_cube": True})
                for k in ("params", "secondary", "secondary_backing"):
                    p2[k] = c[k]
                if "secondary_order" in c:
                    p2["secondary_order"] = c["secondary_order"]
            elif mode < 0.93 and op == "zonal_mean" and not (S.j2arr(p2["secondary"]["zones"]) == p2["params"]["znodata"]).any():
                # same cube, same zones raster, only the zones' nodata marker differs (a zone id is
                # declared "no zone"): every argument of the kernel must be part of the task identity
                p2["params"]["znodata"] = rng.randrange(p2["params"]["nz"])
            # else: the very same call twice (dask merges the keys -- legitimately; both must be right)
            if op == "zonal_mean" and rng.random() < 0.9:
                scn["params"]["name"] = p2["params"]["name"] = "zm"
        scn["pair"] = p2
    elif r < 0.74 and op != "dekad" and runner.relaxed(scn) in (None, "core-dim-chunked"):
        # O11: the lazy cube has an upstream history and/or the result feeds a downstream consumer
        scn["pipe"] = S.gen_pipe(rng, scn)
    cfg = runner.gen_config(rng)
    return rng, scn, cfg


def exec_A(scn, cfg, tape=None, rng=None, ref_cache=None):
    from . import runner

    chooser = runner.chooser_for(rng or random.Random(0), cfg, tape)
    return runner.run_A(scn, cfg, chooser, ref_cache=ref_cache)


def permute_norm(norm, perm, Y, X):
    """Apply the pixel permutation to a normalised result (variables having y and x dims)."""
    out = {}
    for k, v in norm.items():
        dims = v["dims"]
        if "y" in dims and "x" in dims:
            a = v["values"]
            iy, ix = dims.index("y"), dims.index("x")
            a2 = np.moveaxis(a, (iy, ix), (-2, -1))
            sh = a2.shape
            a2 = a2.reshape(sh[:-2] + (Y * X,))[..., perm].reshape(sh)
            a2 = np.moveaxis(a2, (-2, -1), (iy, ix))
            v = dict(v)
            v["values"] = a2
        out[k] = v
    return out


def check_equivariance(scn, rng, ref_cache, perm=None):
    """O5: op(pi(cube)) == pi(op(cube)); zonal.mean invariant."""
    from . import runner

    ref, ref_exc = ref_cache["ref"]
    if ref_exc is not None or ref is None:
        return []
    if scn["params"].get("dimension") or scn["params"].get("dim"):
        return []  # the series runs along y: (y, x) positions are not independent pixels
    T, Y, X = scn["cube"]["shape"]
    if Y * X < 2:
        return []
    if perm is None:
        perm = list(range(Y * X))
        rng.shuffle(perm)
    perm = [int(p) for p in perm]
    check_equivariance.last_perm = perm
    got, exc, _ = runner.eager_reference(scn, perm=np.array(perm))
    if exc is not None:
        return [("pixel-equivariance", f"permuted cube raised {type(exc).__name__}: {str(exc)[:200]} while the original did not")]
    want = permute_norm(ref, np.array(perm), Y, X)
    out = []
    for cls, msg in S.compare(want, got):
        out.append(("pixel-equivariance", f"{cls}: {msg} (perm={perm})"))
    return out


def single_pixel(scn, py, px):
    """The scenario restricted to one pixel (cube and every secondary raster); no pair, no pipeline."""
    s = json.loads(json.dumps({k: v for k, v in scn.items() if k not in ("pair", "pipe")}))
    cube = S.j2arr(scn["cube"])
    s["cube"] = S.arr2j(cube[:, py : py + 1, px : px + 1].copy())
    for name in s.get("secondary") or {}:
        a = S.j2arr(scn["secondary"][name])
        s["secondary"][name] = S.arr2j(a[py : py + 1, px : px + 1].copy())
    s["chunks"] = {"y": [1], "x": [1]}
    s["time_chunks"] = None
    s["secondary_chunks"] = None
    return s


def check_failure_locality(scn):
    """O13: the in-memory call on the whole cube raises E.  If the same call on one pixel alone raises
    the same E while on another pixel alone it computes, one pixel's series decides the outcome of
    every other pixel (and, on dask-backed data, of exactly those that share its block) -- the
    clause "each pixel's result depends only on that pixel's own series" for outcomes that are
    exceptions.  A refusal that does not depend on pixel data (arguments, time axis, attributes)
    raises for every pixel alone and is never flagged; neither is a cube no single pixel of which
    raises."""
    from . import runner

    if scn["op"] in ("zonal_mean", "dekad") or scn["params"].get("dimension") or scn["params"].get("dim"):
        return []  # not per-pixel operations / the series runs along y
    T, Y, X = scn["cube"]["shape"]
    if Y * X < 2:
        return []
    base = {k: v for k, v in scn.items() if k not in ("pair", "pipe")}
    _, exc, _ = runner.eager_reference(base)
    if exc is None:
        return []  # (the pipeline consumer raised, not the operation)

    def sig(e):
        return (type(e).__name__, str(e)[:80])

    raised, computed = [], []
    pixels = [(py, px) for py in range(Y) for px in range(X)]
    step = max(1, len(pixels) // 40)
    for py, px in pixels[::step]:
        _, e, _ = runner.eager_reference(single_pixel(scn, py, px))
        if e is None:
            computed.append((py, px))
        elif sig(e) == sig(exc):
            raised.append((py, px))
    if raised and computed:
        return [
            (
                "pixel-failure-aborts-others",
                f"in-memory call on the {Y}x{X} cube raises {sig(exc)[0]}: {sig(exc)[1]}; pixel (y={raised[0][0]}, x={raised[0][1]}) alone raises the same, "
                f"pixel (y={computed[0][0]}, x={computed[0][1]}) alone computes ({len(raised)} raising / {len(computed)} computing pixels checked)",
            )
        ]
    return []


def check_layout_invariance(scn, ref_cache):
    """O9: the result under the scenario's dimension order (and its secondary rasters' own dim
    orders) equals, matched by dimension NAME, the result under the canonical (time, y, x) layout."""
    from . import runner

    ref, ref_exc = ref_cache["ref"]
    if ref is None or scn["op"] == "dekad":
        return []
    canon = dict(scn)
    canon["layout"] = ["time", "y", "x"]
    canon["secondary_order"] = {k: "yx" for k in scn.get("secondary", {})}
    if canon["layout"] == scn["layout"] and all(v in (None, "yx") for v in (scn.get("secondary_order") or {}).values()):
        return []
    if scn["op"] == "autocorr":
        # the time-first special path names/orders its output itself; still must agree by name
        pass
    cref, cexc, _ = runner.eager_reference(canon)
    if cexc is not None:
        return [("layout-invariance", f"canonical (time,y,x) layout raised {type(cexc).__name__}: {str(cexc)[:160]} while layout {scn['layout']} did not")]
    out = []
    if set(cref) != set(ref):
        return [("layout-invariance", f"variables differ between layouts: {sorted(ref)} vs {sorted(cref)}")]
    for k, r in ref.items():
        c = cref[k]
        if set(r["dims"]) != set(c["dims"]):
            out.append(("layout-invariance", f"{k}: dims {r['dims']} under layout {scn['layout']} vs {c['dims']} under (time,y,x)"))
            continue
        perm = [c["dims"].index(d) for d in r["dims"]]
        cv = np.transpose(c["values"], perm) if perm else c["values"]
        if r["dtype"] != c["dtype"]:
            out.append(("layout-invariance", f"{k}: dtype {r['dtype']} vs {c['dtype']}"))
        elif not S.values_equal(np.ascontiguousarray(r["values"]), np.ascontiguousarray(cv)):
            out.append(("layout-invariance", f"{k}: values under layout {scn['layout']} / secondary order {scn.get('secondary_order')} differ from the (time,y,x) result matched by dimension name"))
    return out


def check_mixed_backing(scn, ref_cache):
    """O10: an in-memory cube with dask-backed secondary rasters (a loaded cube next to rasters opened
    lazily) must give what the all-in-memory call gives (the result may come back lazy)."""
    import dask

    ref, ref_exc = ref_cache["ref"]
    if ref is None or not scn.get("secondary"):
        return []
    mixed = dict(scn)
    mixed["secondary_backing"] = {k: "dask" for k in scn["secondary"]}
    mixed["secondary_chunks"] = None
    cube = S.build_cube(mixed)
    aux = S.build_aux(mixed, lazy=True)  # lazy=True -> secondaries are chunked as drawn
    try:
        res = S.apply_op(mixed, cube, lazy=True, aux=aux)
        (res,) = dask.compute(res, scheduler="synchronous")
    except Exception as e:  # noqa: BLE001
        return [("mixed-backing-raises", f"in-memory cube with dask-backed {sorted(scn['secondary'])} raised {type(e).__name__}: {str(e)[:160]} while the all-in-memory call succeeded")]
    out = []
    for cls, msg in S.compare(ref, S.normalise(res)):
        out.append((f"mixed-backing-differs-{cls}", f"in-memory cube with dask-backed {sorted(scn['secondary'])}: {msg}"))
    return out


def gen_history(scn, key):
    """O12: a short call history over SHARED argument objects (see check_history)."""
    rng = random.Random(key + "/hist")
    op = scn["op"]
    base = {k: v for k, v in scn.items() if k not in ("pair", "pipe", "time_chunks", "secondary_chunks")}
    base["secondary_backing"] = {k: rng.choice(["numpy", "dask"]) for k in sorted(scn.get("secondary") or {})}
    layouts = [["time", "y", "x"], ["time", "x", "y"]] if op == "zonal_mean" else [list(l) for l in S.LAYOUTS]
    steps = []
    cur = base
    for i in range(rng.randint(2, 4)):
        kind = "first" if i == 0 else rng.choice(["same", "layout", "layout", "flip", "flip-inplace"] + (["retime-inplace"] * 5 if op == "spi" and cur["params"].get("cal") else []))
        v = dict(cur)
        if kind in ("same", "flip") and i > 0 and cur.get("secondary") and rng.random() < 0.5:
            # the user edits a secondary raster (numpy-backed: IN PLACE, same object, same identity;
            # dask-backed: a new lazy object) -- same value set, other positions
            kind = "aux-edit"
            v["secondary"] = dict(cur["secondary"])
            name = rng.choice(sorted(cur["secondary"]))
            a = S.j2arr(cur["secondary"][name])
            flat = a.reshape(-1).copy()
            prm = list(range(flat.size))
            rng.shuffle(prm)
            v["secondary"][name] = S.arr2j(flat[prm].reshape(a.shape))
            v["_edited"] = name
        if kind == "retime-inplace":
            # the time axis of the same object is re-labelled (shifted by k dekads); the calibration
            # DATES stay the same, so they now sit at other positions (s51)
            T = cur["cube"]["shape"][0]
            a, b = cur["params"]["cal"]
            ks = [k for k in (-3, -2, -1, 1, 2, 3) if 0 <= a - k and b - k <= T - 1 and cur["tstart"] + k >= 0]
            if ks:
                k = rng.choice(ks)
                v["tstart"] = cur["tstart"] + k
                v["params"] = dict(cur["params"], cal=[a - k, b - k])
            else:
                kind = "same"
        if kind == "layout":
            v["layout"] = list(rng.choice(layouts))
        elif kind in ("flip", "flip-inplace"):
            # the user's data change (y reversed); the secondary rasters stay as they are
            v["cube"] = S.arr2j(np.ascontiguousarray(S.j2arr(cur["cube"])[:, ::-1, :]))
        steps.append({"kind": kind, "scn": v, "lazy": rng.random() < 0.5})
        cur = v
    return base, steps


def check_history(scn, key, ref_cache):
    """O12 call history with shared argument objects.  The accessor is called 2-4 times in a row
    in this process; the calls share the very same secondary raster / broadcast argument OBJECTS
    (numpy- or dask-backed, so a lazily opened raster keeps its dask name) while the cube changes
    between calls: another dimension order, other content in a new object, other content written
    IN PLACE into the same object, in-memory or dask-backed.  Every call must return what the same
    call returns on fresh objects (computed beforehand).  Reaches what a single call never does:
    state the library keeps between calls, keyed by something that does not determine the
    answer (object identity, a dask name taken before a transpose, shapes ...)."""
    import dask

    from . import runner

    ref, ref_exc = ref_cache["ref"]
    if ref is None or scn["op"] == "dekad":
        return []
    base, steps = gen_history(scn, key)
    expected = []
    for st in steps:
        if st["lazy"] and runner.relaxed(st["scn"]):
            st["lazy"] = False
        e, exc, _ = runner.eager_reference(st["scn"])
        expected.append((e, exc))
    aux = S.build_aux(base, lazy=True)  # built once; shared by every call of the history
    before = S.input_digests(aux["__watch__"])
    out = []
    cube = None
    for i, (st, (exp, exp_exc)) in enumerate(zip(steps, expected)):
        v = st["scn"]
        if st["kind"] == "aux-edit":
            name = v["_edited"]
            fresh = S.build_secondary(v, name)
            if base["secondary_backing"].get(name) == "dask":
                ch = base["chunks"]
                new_obj = fresh.chunk({"y": tuple(ch["y"]), "x": tuple(ch["x"])})
                new_obj.attrs.update(aux[name].attrs)
                aux[name] = new_obj
            else:
                aux[name].data[...] = fresh.transpose(*aux[name].dims).data
            aux["__watch__"][name] = fresh.transpose(*aux[name].dims).data if base["secondary_backing"].get(name) == "dask" else aux[name].data
            before = S.input_digests(aux["__watch__"])
        if st["kind"] == "retime-inplace" and cube is not None and list(cube.dims) == list(v["layout"]):
            fresh = S.build_cube(v)
            cube["time"] = fresh["time"].values  # same DataArray object (and accessor), new labels
            if "doy" in cube.coords:
                cube["doy"] = ("time", fresh["doy"].values)
        elif st["kind"] == "flip-inplace" and cube is not None and cube.data.flags.writeable and list(cube.dims) == list(v["layout"]):
            cube.data[...] = S.build_cube(v).data  # same DataArray object, same buffer, new content
        else:
            cube = S.build_cube(v)
        if exp_exc is not None:
            continue
        try:
            res = S.apply_op(v, S.make_lazy(v, cube) if st["lazy"] else cube, lazy=True, aux=aux)
            (res,) = dask.compute(res, scheduler="synchronous")
        except Exception as e:  # noqa: BLE001
            out.append(("history-call-raises", f"call {i + 1} of {len(steps)} ({st['kind']}, {'dask' if st['lazy'] else 'in-memory'} cube, layout {v['layout']}, shared arguments {base['secondary_backing']}) raised {type(e).__name__}: {str(e)[:160]}; the same call on fresh objects succeeds"))
            break
        for cls, msg in S.compare(exp, S.normalise(res)):
            out.append((f"history-call-differs-{cls}", f"call {i + 1} of {len(steps)} ({st['kind']}, {'dask' if st['lazy'] else 'in-memory'} cube, layout {v['layout']}, shared arguments {base['secondary_backing']}; history {[s_['kind'] for s_ in steps[: i + 1]]}): {msg}"))
        if out:
            break
    after = S.input_digests(aux["__watch__"])
    for k in before:
        if before[k] != after[k]:
            out.append(("history-input-modified", f"shared argument '{k}' changed during a call history"))
    return out


def check_real_schedulers(scn, ref_cache):
    """O4 cross-check with dask's real synchronous and threaded schedulers (warm kernels)."""
    import dask

    ref, ref_exc = ref_cache["ref"]
    if ref_exc is not None:
        return [], 0
    out = []
    n = 0
    cube = S.build_cube(scn)
    for sched, kw in (("synchronous", {}), ("threads", {"num_workers": 1}), ("threads", {"num_workers": 2}), ("threads", {"num_workers": 16})):
        try:
            if True:  # warnings are silenced process-wide (catch_warnings is not thread-safe)
                lazy = S.apply_op(scn, S.make_lazy(scn, cube), lazy=True)
                (res,) = dask.compute(lazy, scheduler=sched, **kw)
            n += 1
            for cls, msg in S.compare(ref, S.normalise(res)):
                out.append((f"real-scheduler-differs-{cls}", f"{sched}{kw}: {msg}"))
        except Exception as e:  # noqa: BLE001
            from .runner import relaxed

            if relaxed(scn):
                continue  # equal-or-raise situations (chunked time / series dimension, misaligned rasters)
            out.append(("real-scheduler-raises", f"{sched}{kw}: {type(e).__name__}: {str(e)[:200]}"))
    return out, n


def _record_faults(agg, rr, scn):
    c, p = rr.counters, rr.probes
    if p.get("task_completed_out_of_submission_order"):
        agg.bump("faults_fired", "reorder", p["task_completed_out_of_submission_order"])
    if c.get("stall_fired"):
        agg.bump("faults_fired", "stall", c["stall_fired"])
    if c.get("line_yields"):
        agg.bump("faults_fired", "preempt", c["line_yields"])
    if c.get("cold_compiles") and rr.cfg.get("slow_steps"):
        agg.bump("faults_fired", "slow-compile", c["cold_compiles"])
    if p.get("dup_exec_fired"):
        agg.bump("faults_fired", "dup-exec", p["dup_exec_fired"])
    if rr.ntasks > 1:
        agg.bump("faults_fired", "shared-input", 1)
    for k, v in p.items():
        agg.bump("probes", k, v)
    if c.get("cold_compiles", 0) > 1:
        agg.bump("probes", "wrapper_compiled_more_than_once", 1)
    if c.get("cold_compiles", 0) >= 1:
        agg.bump("probes", "cold_wrapper_runs", 1)


def handle_violations(agg, known, workload, key, scn, cfg, rr, minimiser, extra=None, budget=120):
    """Classify violations: known finding / new (minimise + payload)."""
    seen = set()
    for vclass, msg in rr.violations:
        if vclass in seen:
            continue
        seen.add(vclass)
        k = vkey(scn, vclass)
        agg.bump("violation_counts", f"{scn['op']}:{vclass}")
        kf = driver.match_known(known, PROP, vclass, k)
        if kf is not None:
            agg.bump("known_hits", kf["id"])
            continue
        # at most 2 minimised payloads per (op, class) per worker
        tag = f"{scn['op']}:{vclass}"
        if sum(1 for v in agg.d["violations"] if v["tag"] == tag) >= 2:
            continue
        payload = {
            "property": PROP,
            "workload": workload,
            "tag": tag,
            "key": key,
            "violation": {"class": vclass, "message": msg},
            "scenario": scn,
            "config": cfg,
            "tape": list(rr.tape),
            "digest": rr.digest,
            "minimised": False,
        }
        if extra:
            payload.update(extra)
        if minimiser is not None:
            try:
                m = minimiser(vclass, budget)
                if m is not None:
                    mscn, mcfg, mtape, mrr, used = m
                    agg.d["minimise_execs"] += used
                    if mrr is not None:
                        payload["original"] = {"scenario_summary": _scn_summary(scn), "config": cfg, "tape_len": len(rr.tape)}
                        payload.update(
                            scenario=mscn,
                            config=mcfg,
                            tape=list(mtape),
                            digest=mrr.digest,
                            minimised=True,
                        )
                        if "case" in payload:
                            payload["case"] = mcfg
                            payload["config"] = {}
                        for c2, m2 in mrr.violations:
                            if c2 == vclass:
                                payload["violation"]["message"] = m2
                                break
            except Exception as e:  # noqa: BLE001
                payload["minimise_error"] = f"{type(e).__name__}: {e}"
        agg.d["violations"].append(payload)


def _ckpt(job, agg):
    cb = job.get("_checkpoint")
    if cb is not None:
        out = agg.export()
        out["name"] = job["name"]
        cb(out)


def job_op(job):
    """One operation: Workload A (simulated dask), B (caller threads), R (real schedulers)."""
    from . import minimise, runner, workload_b

    runner.install_seams()
    op, seed = job["op"], job["seed"]
    S.BIG_FRACTION = 0.2 if job.get("tier") == "thorough" else 0.0
    known = driver.load_known()
    agg = Agg()
    t_start = time.monotonic()
    # ---------------- D: one real-decorator first-use race, before anything is compiled here ----
    # (real threads, real numba compile of a kernel this job needs anyway; sound, not schedulable)
    if job.get("race_first"):
        from . import realrace

        cands = sorted(k for k, o in realrace.KERNEL_OP.items() if o == op and k != "ws2doptvplc_tyx")
        picks = []
        if cands:
            # njit first-use kernels always (their race window is otherwise microscopic), plus one
            # seed-chosen lazily compiled kernel -- but only one race per process is a *first* use of
            # numba, so the njit one goes first
            picks = [k for k in cands if k in realrace.NJIT_FIRST_USE][:1] or [random.Random(f"{seed}/D-pick/{op}").choice(cands)]
        for kernel in picks:
            t_d = time.monotonic()
            try:
                nthr = random.Random(f"{seed}/D/{kernel}").choice([2, 3, 4, 8])
                viol = realrace.race(kernel, seed, nthr)
                agg.d["runs"] += 1
                agg.bump("runs_by_workload", "D")
                agg.bump("probes", "real_decorator_first_use_races")
                seen_d = set()
                for vclass, msg in viol:
                    if vclass in seen_d:
                        continue
                    seen_d.add(vclass)
                    agg.bump("violation_counts", f"{kernel}:{vclass}")
                    agg.d["violations"].append({"property": PROP, "workload": "D", "tag": f"{kernel}:{vclass}", "key": f"{seed}/D/{kernel}", "violation": {"class": vclass, "message": msg}, "kernel": kernel, "seed": seed, "threads": nthr, "tape": [], "digest": ""})
            except Exception as e:  # noqa: BLE001
                agg.d["harness"].append(f"realrace {kernel}: {type(e).__name__}: {e}")
            agg.bump("wall", "D", time.monotonic() - t_d)
    # ---------------- deterministic probes of the listed known findings ----------------
    for f in known.get("findings", []):
        if f.get("property") == PROP and f.get("where", {}).get("op") == op and f.get("probe") and job["budget_A"]:
            try:
                key = f"probe/{f['id']}"
                scn = S.gen_scenario(random.Random(key), ops=[op])
                scn["params"].update(f["probe"]["params"])
                cfg = {"workers": 2, "p_switch": 0.5, "stall": False, "dup": False, "preempt": False, "optimize_graph": True, "cold": False, "slow_steps": 0}
                rr = exec_A(scn, cfg, rng=random.Random(key))
                agg.d["runs"] += 1
                agg.bump("runs_by_workload", "A")
                if rr.harness:
                    agg.d["harness"].append(f"{key}: {rr.harness}")
                elif rr.violations:
                    handle_violations(agg, known, "A", key, scn, cfg, rr, None)
                if not agg.d["known_hits"].get(f["id"]):
                    agg.bump("probes", f"known_finding_not_reproduced:{f['id']}")
            except Exception as e:  # noqa: BLE001
                agg.d["harness"].append(f"probe {f['id']}: {type(e).__name__}: {e}")
    # ---------------- A ----------------
    swA = driver.Stopwatch(job["budget_A"], max_credit=min(25.0, 0.5 * job["budget_A"]))
    i = job.get("start", 0)
    nA = 0
    while not swA.expired() and nA < job.get("max_runs", 10**9):
        key = f"{seed}/A/{op}/{i}"
        if nA % 8 == 3 and not job.get("dump"):
            # focus mode for a rare conjunction (s45): two results of one operation hanging off the
            # SAME lazy cube, differing in a raster / one argument only, computed in one graph
            key = f"{seed}/A/{op}/focus-pair-{i}"
        i += 1
        nA += 1
        t_run = time.monotonic()
        try:
            rng, scn, cfg = gen_A(key, op)
            cache = {}
            rr = exec_A(scn, cfg, rng=rng, ref_cache=cache)
            if time.monotonic() - t_run > 1.0:
                swA.credit(time.monotonic() - t_run - 0.2)  # a numba specialisation was compiled
        except Exception as e:  # noqa: BLE001
            agg.d["harness"].append(f"{key}: {type(e).__name__}: {e}\n{traceback.format_exc()[-1500:]}")
            continue
        agg.d["runs"] += 1
        agg.bump("runs_by_workload", "A")
        agg.bump("runs_by_op", f"{op}:A")
        agg.d["steps"] += rr.steps
        agg.d["tasks"] += rr.ntasks
        agg.d["sim_threads"] += rr.counters.get("threads", 0)
        agg.bump("outcomes", rr.outcome)
        if rr.harness:
            agg.d["harness"].append(f"{key}: {rr.harness}")
            continue
        if job.get("dump"):
            agg.d["digest_map"][key] = rr.digest
        _record_faults(agg, rr, scn)
        if rr.ntasks >= 2 and rr.counters.get("switches", 0) >= 1:
            agg.d["digests"].add(rr.digest[:16])
        agg.d["configs"].add(f"{op}|{''.join(d[0] for d in scn['layout'])}|{chunk_class(scn)}|w{cfg['workers']}")
        if len(agg.d["samples"]) < 2 and rr.ntasks >= 2:
            agg.d["samples"].append(
                {"workload": "A", "key": key, "scenario": _scn_summary(scn), "config": cfg, "tape_head": rr.tape[:40], "tape_len": len(rr.tape), "steps": rr.steps, "tasks": rr.ntasks, "outcome": rr.outcome, "digest": rr.digest}
            )
        # O5 on a sample of runs (pure, but part of the property's statement)
        if scn.get("pipe"):
            agg.bump("probes", "pipeline_runs")
            agg.bump("probes", f"pipeline_pre:{scn["pipe"].get("pre")}")
            agg.bump("probes", f"pipeline_post:{scn["pipe"].get("post")}")
        if not rr.violations and rng.random() < 0.5 and not scn.get("time_chunks") and not (scn.get("pipe") or {}).get("post"):
            try:
                ev = check_equivariance(scn, rng, cache)
            except Exception as e:  # noqa: BLE001
                agg.d["harness"].append(f"{key}: equivariance: {type(e).__name__}: {e}")
                ev = []
            agg.bump("probes", "equivariance_checked")
            rr.violations.extend(ev)
            try:
                lv = check_layout_invariance(scn, cache)
            except Exception as e:  # noqa: BLE001
                agg.d["harness"].append(f"{key}: layout-invariance: {type(e).__name__}: {e}")
                lv = []
            agg.bump("probes", "layout_invariance_checked")
            rr.violations.extend(lv)
            if scn.get("secondary"):
                try:
                    mv = check_mixed_backing(scn, cache)
                except Exception as e:  # noqa: BLE001
                    agg.d["harness"].append(f"{key}: mixed-backing: {type(e).__name__}: {e}")
                    mv = []
                agg.bump("probes", "mixed_backing_checked")
                rr.violations.extend(mv)
            if op != "dekad" and not scn.get("pair"):
                try:
                    hv = check_history(scn, key, cache)
                except Exception as e:  # noqa: BLE001
                    agg.d["harness"].append(f"{key}: history: {type(e).__name__}: {e}\n{traceback.format_exc()[-800:]}")
                    hv = []
                agg.bump("probes", "call_histories_checked")
                rr.violations.extend(hv)
        if rr.outcome == "both-raise" and not rr.violations:
            # O13 (no PRNG draw: the schedule of every other run stays what it was)
            try:
                fv = check_failure_locality(scn)
            except Exception as e:  # noqa: BLE001
                agg.d["harness"].append(f"{key}: failure-locality: {type(e).__name__}: {e}")
                fv = []
            agg.bump("probes", "failure_locality_checked")
            rr.violations.extend(fv)
        if rr.violations:

            def minimiser(vclass, budget, scn=scn, cfg=cfg, rr=rr):
                if vclass in ("pixel-equivariance", "layout-invariance", "pixel-failure-aborts-others") or vclass.startswith("mixed-backing") or vclass.startswith("history-"):
                    return None
                mcache = {}

                def execute(s, c, t):
                    if s is not scn and s != scn:
                        return exec_A(s, c, tape=t)
                    return exec_A(s, c, tape=t, ref_cache=mcache)

                return minimise.minimise(
                    scn, cfg, rr.tape, execute, lambda r: any(v[0] == vclass for v in r.violations), budget=budget
                )

            handle_violations(agg, known, "A", key, scn, cfg, rr, minimiser, extra={"perm": getattr(check_equivariance, "last_perm", None)})
            _ckpt(job, agg)
        elif nA % 100 == 0:
            _ckpt(job, agg)
    agg.bump("wall", "A", time.monotonic() - t_start)
    # ---------------- R ----------------
    t1 = time.monotonic()
    for j in range(job.get("n_real", 2)):
        key = f"{seed}/R/{op}/{j}"
        try:
            rng, scn, cfg = gen_A(key, op)
            cache = {}
            ref, ref_exc, _ = runner.eager_reference(scn)
            cache["ref"] = (ref, ref_exc)
            viol, n = check_real_schedulers(scn, cache)
        except Exception as e:  # noqa: BLE001
            agg.d["harness"].append(f"{key}: {type(e).__name__}: {e}")
            continue
        agg.d["runs"] += n
        agg.bump("runs_by_workload", "R", n)
        if viol:
            rr = runner.RunResult()
            rr.violations = viol
            rr.cfg = cfg
            handle_violations(agg, known, "R", key, scn, cfg, rr, None)
    agg.bump("wall", "R", time.monotonic() - t1)
    # ---------------- B ----------------
    t2 = time.monotonic()
    swB = driver.Stopwatch(job["budget_B"])
    i = 0
    while not swB.expired() and i < job.get("max_runs_B", 10**9):
        key = f"{seed}/B/{op}/{i}"
        i += 1
        try:
            case = workload_b.gen_B(key, op)
            rr = workload_b.exec_B(case)
        except Exception as e:  # noqa: BLE001
            agg.d["harness"].append(f"{key}: {type(e).__name__}: {e}\n{traceback.format_exc()[-1500:]}")
            continue
        agg.d["runs"] += 1
        agg.bump("runs_by_workload", "B")
        agg.bump("runs_by_op", f"{op}:B")
        agg.d["steps"] += rr.steps
        agg.d["sim_threads"] += rr.counters.get("threads", 0)
        agg.bump("outcomes", "B:" + rr.outcome)
        if rr.harness:
            agg.d["harness"].append(f"{key}: {rr.harness}")
            continue
        if job.get("dump"):
            agg.d["digest_map"][key] = rr.digest
        _record_faults(agg, rr, case["base"])
        if rr.counters.get("switches", 0) >= 1:
            agg.d["digests"].add(rr.digest[:16])
        if len([s for s in agg.d["samples"] if s["workload"] == "B"]) < 1:
            agg.d["samples"].append(
                {"workload": "B", "key": key, "base": _scn_summary(case["base"]), "threads": len(case["calls"]), "calls_per_thread": [len(c) for c in case["calls"]], "cold": case["cold"], "tape_head": rr.tape[:40], "tape_len": len(rr.tape), "steps": rr.steps, "digest": rr.digest}
            )
        if rr.violations:

            def minimiserB(vclass, budget, case=case, rr=rr):
                return workload_b.minimise_B(case, rr.tape, vclass, budget)

            handle_violations(agg, known, "B", key, case["base"], case, rr, minimiserB, extra={"case": case})
    agg.bump("wall", "B", time.monotonic() - t2)
    # ---------------- in-run determinism recheck: same key twice -> same event log ----------
    try:
        for wl, n in (("A", 3 if job["budget_A"] else 0), ("B", 2 if job["budget_B"] else 0)):
            for j in range(n):
                key = f"{seed}/{wl}/{op}/{job.get('start', 0) + j if wl == 'A' else j}"
                digs = []
                for _ in range(2):
                    if wl == "A":
                        rng, scn, cfg = gen_A(key, op)
                        digs.append(exec_A(scn, cfg, rng=rng).digest)
                    else:
                        digs.append(workload_b.exec_B(workload_b.gen_B(key, op)).digest)
                agg.bump("probes", "determinism_rechecks")
                if digs[0] != digs[1]:
                    agg.bump("probes", "determinism_mismatches")
                    agg.d["harness"].append(f"{key}: NONDETERMINISTIC simulator: two executions of one key gave digests {digs}")
    except Exception as e:  # noqa: BLE001
        agg.d["harness"].append(f"determinism recheck {op}: {type(e).__name__}: {e}")
    out = agg.export()
    out["name"] = job["name"]
    return out


# ---------------------------------------------------------------------------
# replay
# ---------------------------------------------------------------------------


def replay_file(path):
    from . import runner

    with open(path) as f:
        payload = json.load(f)
    wl = payload["workload"]
    want = payload["violation"]["class"]
    print(f"replaying {path}: property={payload['property']} workload={wl} class={want} VERIF_SEED-key={payload.get('key')}")
    runner.install_seams()
    if wl == "A":
        rr = exec_A(payload["scenario"], payload["config"], tape=payload["tape"])
    elif wl == "B":
        from . import workload_b

        rr = workload_b.exec_B(payload["case"], tape=payload["tape"])
    elif wl == "R":
        cache = {}
        ref, ref_exc, _ = runner.eager_reference(payload["scenario"])
        cache["ref"] = (ref, ref_exc)
        rr = runner.RunResult()
        rr.violations, _ = check_real_schedulers(payload["scenario"], cache)
    elif wl in ("C", "T"):
        from . import prange

        rr = prange.replay(payload)
    elif wl == "D":
        from . import realrace

        rr = realrace.replay(payload)
    elif wl == "W":
        from . import wrapfarm

        rr = wrapfarm.replay(payload)
    else:
        print(f"unknown workload {wl}")
        return 2
    if wl == "A" and want.startswith("mixed-backing"):
        cache = {}
        ref, ref_exc, _ = runner.eager_reference(payload["scenario"])
        cache["ref"] = (ref, ref_exc)
        rr.violations.extend(check_mixed_backing(payload["scenario"], cache))
    if wl == "A" and want == "layout-invariance":
        cache = {}
        ref, ref_exc, _ = runner.eager_reference(payload["scenario"])
        cache["ref"] = (ref, ref_exc)
        rr.violations.extend(check_layout_invariance(payload["scenario"], cache))
    if wl == "A" and want.startswith("history-"):
        cache = {}
        ref, ref_exc, _ = runner.eager_reference(payload["scenario"])
        cache["ref"] = (ref, ref_exc)
        rr.violations.extend(check_history(payload["scenario"], payload["key"], cache))
    if wl == "A" and want == "pixel-failure-aborts-others":
        rr.violations.extend(check_failure_locality(payload["scenario"]))
    if wl == "A" and want == "pixel-equivariance":
        cache = {}
        ref, ref_exc, _ = runner.eager_reference(payload["scenario"])
        cache["ref"] = (ref, ref_exc)
        rr.violations.extend(check_equivariance(payload["scenario"], random.Random(payload["key"] + "/eq"), cache, perm=payload.get("perm")))
    if rr.harness:
        print(f"HARNESS-ERROR during replay: {rr.harness}")
        return 2
    got = [v for v in rr.violations if v[0] == want]
    if not got:
        print(f"replay did not reproduce class {want}; observed: {[v[0] for v in rr.violations]}")
        return 0
    same_digest = (not payload.get("digest")) or (payload["digest"] == rr.digest) or wl in ("R", "T", "D")
    print(f"reproduced: {got[0][0]}: {got[0][1]}")
    print(f"digest {'matches' if same_digest else 'DIFFERS from recorded ' + payload['digest'] + ' now ' + rr.digest}")
    print(f"VIOLATION property={PROP} replay={path}")
    return 1


# ---------------------------------------------------------------------------
# the check
# ---------------------------------------------------------------------------

TIERS = {
    # seconds per phase inside an op job; prange job budgets
    "quick": {"A": 45, "B": 15, "n_real": 2, "C": 40, "W": 40, "T": "quick", "D": False},
    "thorough": {"A": 900, "B": 240, "n_real": 12, "C": 600, "W": 600, "T": "thorough", "D": True},
}


def run_check(args):
    from . import runner

    t0 = time.monotonic()
    seed = driver.seed_from_env()
    tier = args.tier if args.tier in TIERS else "quick"
    conf = dict(TIERS[tier])
    if args.budget:
        scale = args.budget / conf["A"]
        conf["A"] = args.budget
        conf["B"] = max(3.0, conf["B"] * scale)
        conf["C"] = max(5.0, conf["C"] * scale)
        conf["W"] = max(5.0, conf["W"] * scale)
    only = set(args.only.split(",")) if args.only else {"A", "B", "C", "T", "R", "D", "W"}
    print(f"C12 check: tier={tier} VERIF_SEED={seed} PYTHONHASHSEED={os.environ.get('PYTHONHASHSEED')} repo={driver.repo_dir()} nproc={args.nproc}")
    sys.stdout.flush()

    runner.install_seams()  # import hdc etc. once; children are forked from here (no kernel compiled yet)
    import hdc.algo

    hdc_file = os.path.realpath(hdc.algo.__file__)
    if not hdc_file.startswith(os.path.realpath(driver.repo_dir()) + os.sep):
        print(f"HARNESS-ERROR: hdc imported from {hdc_file}, expected under {driver.repo_dir()}")
        return 2

    jobs = []
    if only & {"A", "B", "R"}:
        for op in S.OPS:
            if getattr(args, "ops", None) and op not in args.ops.split(","):
                continue
            jobs.append(
                {
                    "name": f"op:{op}",
                    "kind": "op",
                    "op": op,
                    "seed": seed,
                    "budget_A": conf["A"] if "A" in only else 0,
                    "budget_B": conf["B"] if "B" in only else 0,
                    "n_real": conf["n_real"] if "R" in only else 0,
                    "race_first": "D" in only and not args.dump,
                    "tier": tier,
                    **({"dump": True, "max_runs": args.max_runs, "max_runs_B": args.max_runs, "budget_A": 10**6 if "A" in only else 0, "budget_B": 10**6 if "B" in only else 0} if args.dump else {}),
                }
            )
    if only & {"C", "T"}:
        jobs.append({"name": "prange", "kind": "prange", "seed": seed, "budget_C": conf["C"] if "C" in only else 0, "T": conf["T"] if "T" in only else None, **({"dump": True, "max_runs": args.max_runs, "budget_C": 10**6 if "C" in only else 0} if args.dump else {})})
    if "W" in only and not getattr(args, "ops", None):
        jobs.append({"name": "wrapfarm", "kind": "farm", "seed": seed, "budget_W": conf["W"], **({"dump": True, "max_runs": args.max_runs, "budget_W": 10**6} if args.dump else {})})
    if conf["D"] and "D" in only:
        for name in S.LAZY_KERNELS:
            jobs.append({"name": f"realrace:{name}", "kind": "realrace", "kernel": name, "seed": seed})

    results, errors = driver.run_jobs(dispatch_job, jobs, nproc=args.nproc, hang_s=int(conf["A"] * 2 + conf["B"] + 1200))
    agg = Agg()
    for r in results:
        agg.merge(r)
    d = agg.d
    harness = list(errors) + d["harness"]

    # ---- report --------------------------------------------------------------
    known = driver.load_known()
    for f in known.get("findings", []):
        if f.get("property") == PROP and d["known_hits"].get(f["id"]):
            print(f"KNOWN-FINDING: property={PROP} {f['id']}: {f['what']} (seen {d['known_hits'][f['id']]}x this run)")
        elif f.get("property") == PROP and d["probes"].get(f"known_finding_not_reproduced:{f['id']}"):
            print(f"note: listed finding {f['id']} did not reproduce on this tree (its probe passed)")
    nviol = 0
    for payload in d["violations"]:
        path = driver.write_replay(PROP, payload)
        nviol += 1
        print(f"violation [{payload['tag']}] {payload['violation']['message'][:300]}")
        print(f"VIOLATION property={PROP} replay={path}")
    wall = time.monotonic() - t0
    if args.dump:
        with open(args.dump, "w") as f:
            json.dump({"digests": d["digest_map"], "violations": [p["tag"] for p in d["violations"]], "harness": harness}, f, sort_keys=True)
    if not args.no_evidence and not args.dump:
        write_evidence(tier, seed, d, wall, nviol, harness, jobs)
    total = d["runs"]
    print(
        f"C12: {total} runs ({d['runs_by_workload']}), {d['steps']} logical steps, {len(d['digests'])} distinct non-trivial traces, "
        f"{len(d['configs'])} distinct configurations, faults fired {d['faults_fired']}, wall {wall:.0f}s"
    )
    for h in harness[:10]:
        print("HARNESS-ERROR:", h[:1500])
    if nviol:
        return 1
    if harness:
        return 2
    if total == 0:
        print("HARNESS-ERROR: nothing was explored")
        return 2
    return 0


def dispatch_job(job):
    if job["kind"] == "op":
        return job_op(job)
    if job["kind"] == "prange":
        from . import prange

        return prange.job_prange(job)
    if job["kind"] == "realrace":
        from . import realrace

        return realrace.job_realrace(job)
    if job["kind"] == "farm":
        from . import wrapfarm

        return wrapfarm.job_farm(job)
    raise ValueError(job["kind"])


def write_evidence(tier, seed, d, wall, nviol, harness, jobs):
    runs = d["runs"]
    hours = max(wall, 1e-9) / 3600.0
    probes = dict(d["probes"])
    holes = [
        p
        for p in (
            "two_threads_in_compile_step",
            "wrapper_compiled_more_than_once",
            "dup_exec_overlapped",
            "task_completed_out_of_submission_order",
            "scheduler_woke_with_multiple_results",
            "caller_threads_interleaved_in_accessor",
            "prange_iterations_interleaved",
            "farm_two_different_kernels_compiling_at_once",
            "pair_shares_lazy_cube",
            "call_histories_checked",
            "tee_computed_in_one_graph",
            "failure_locality_checked",
        )
        if not probes.get(p)
    ]
    ev = {
        "property_id": PROP,
        "tier": tier,
        "seed": seed,
        "level": "exploration",
        "wall_s": round(wall, 2),
        "violations": nviol,
        "coverage": {
            "evaluations": runs,
            "distinct_nontrivial": len(d["digests"]),
            "rule": (
                "one evaluation = one simulated run (scenario x configuration x schedule); generated from "
                "Random(f'{VERIF_SEED}/{workload}/{op}/{i}'). A run is non-trivial when it had >= 2 simulated threads and >= 1 "
                "context switch (Workload A: >= 2 dask tasks); distinct = distinct SHA-1 of the full event log + decision tape."
            ),
            "samples": d["samples"][:6],
            "runs_by_workload": d["runs_by_workload"],
            "runs_by_operation_and_workload": d["runs_by_op"],
            "runs_per_hour": int(runs / hours),
            "seeds_per_hour": int(runs / hours),
            "logical_steps_simulated": d["steps"],
            "simulated_time_note": "hdc-algo has no clock or timer; simulated time is counted in scheduling decisions (logical steps)",
            "dask_tasks_executed": d["tasks"],
            "simulated_threads_created": d["sim_threads"],
            "faults_fired": d["faults_fired"],
            "probes": probes,
            "coverage_holes": holes,
            "distinct_configurations": len(d["configs"]),
            "outcomes": d["outcomes"],
            "violation_counts_by_class": d["violation_counts"],
            "known_finding_hits": d["known_hits"],
            "minimisation_executions": d["minimise_execs"],
            "harness_errors": len(harness),
            "phase_wall_s_summed_over_workers": {k: round(v, 1) for k, v in d["wall"].items()},
            "real_vs_stub": {
                "real": [
                    "hdc.algo accessors, utils, dekad, all kernels, lazycompile (imported from the working tree)",
                    "numba machine code, SciPy special-function bindings",
                    "xarray.apply_ufunc, dask graph construction/optimisation, dask.order, dask.local.get_async state machine",
                    "numba parfor runtime (thread-count runs)",
                ],
                "stub": [
                    "ThreadPoolExecutor/OS scheduler -> simulated executor + baton",
                    "queue.get blocking wait -> simulator block()",
                    "numba compilation step in high-volume wrapper races -> slow-compile stub returning the kernel compiled at warm-up",
                    "parfor runtime for interleavings -> Python model of prange semantics",
                    "uuid.uuid4 -> seeded generator",
                    "Workload W only: kernels and decorators are plain-Python stubs (guvectorize-like / njit-like); lazycompile itself is the working tree's",
                ],
            },
            "jobs": [j["name"] for j in jobs],
        },
        "assumptions": [
            "eager result on the numpy-backed cube is the reference (computed sequentially outside the simulation)",
            "compiled kernels are atomic steps for the Python-level scheduler; native races on shared arguments are covered only through the inputs-unchanged invariant",
            "cubes <= 24x6x6, <= 16 workers, <= 20000 scheduling steps per run",
            "sampling, not proof: clean means no violation among the runs counted here",
        ],
    }
    driver.write_evidence(PROP, ev)
