"""C14 worker: one process = one kernel group under one allocator state.

Started by checks/c14.py with NUMBA_BOUNDSCHECK=1 and MALLOC_PERTURB_=<byte> (or unset
for the control).  Executes a seeded *call history*; the history is a function of
(seed, group) only, so sibling processes under other allocator states execute the very
same calls and their outputs can be compared call by call.
"""

from __future__ import annotations

import hashlib
import json
import os
import random
import sys
import time
import traceback

import numpy as np

POISONS = ["5A", "A5", "FF", "nodata", "nan", "stale", "00"]


def sha_arrays(arrs):
    h = hashlib.sha1()
    for a in arrs:
        a = np.asarray(a)
        h.update(str(a.dtype).encode())
        h.update(str(a.shape).encode())
        h.update(np.ascontiguousarray(a).tobytes())
    return h.hexdigest()


def flatten_result(r):
    if isinstance(r, tuple):
        out = []
        for x in r:
            out.extend(flatten_result(x))
        return out
    return [np.asarray(r)]


GUARD = 16  # guard elements on each side of the last axis
CANARY = 0xCD


def _pattern_scalar(byte, dtype):
    return np.frombuffer(bytes([byte]) * np.dtype(dtype).itemsize, dtype=dtype)[0]


def poison(buf, kind, nodata=-3000):
    """Fill a (possibly strided) view with a dirty pattern."""
    if kind == "stale":
        return False
    if kind in ("5A", "A5", "FF", "00"):
        buf[...] = _pattern_scalar(int(kind, 16), buf.dtype)
    elif kind == "nodata":
        buf[...] = np.array(255 if buf.dtype.kind == "u" else nodata).astype(buf.dtype, casting="unsafe")
    elif kind == "nan":
        buf[...] = np.nan if buf.dtype.kind == "f" else _pattern_scalar(0x7F, buf.dtype)
    return True


class Buf:
    """An output buffer carved out of a larger allocation: guard bands before and after the last
    axis (and, for strided views, the gaps between the elements) hold a canary pattern."""

    __slots__ = ("base", "view", "stride")

    def __init__(self, shape, dtype, stride):
        shape = tuple(shape)
        inner = shape[-1] if shape else 1
        lead = shape[:-1] if shape else ()
        self.stride = stride
        self.base = np.empty(lead + (2 * GUARD + inner * stride,), dtype=dtype)
        self.base.view("uint8")[...] = CANARY
        v = self.base[..., GUARD : GUARD + inner * stride : stride]
        self.view = v.reshape(()) if shape == () else v

    def prepare(self, kind):
        keep = self.view.copy() if kind == "stale" else None
        self.base.view("uint8")[...] = CANARY
        if keep is not None:
            self.view[...] = keep
        else:
            poison(self.view, kind)

    def guards_intact(self):
        chk = self.base.copy()
        inner = self.view.shape[-1] if self.view.shape else 1
        chk[..., GUARD : GUARD + inner * self.stride : self.stride] = _pattern_scalar(CANARY, chk.dtype)
        return bool((chk.view("uint8") == CANARY).all())


class BufferPool:
    """Output buffers recycle across the history like an allocator free-list."""

    def __init__(self):
        self.pool = {}
        self.reused = 0
        self.fresh = 0
        self.strided = 0

    def get(self, shape, dtype, rng, exclude=()):
        stride = 2 if (len(tuple(shape)) >= 1 and rng.random() < 0.3) else 1
        key = (tuple(shape), str(dtype), stride)
        lst = self.pool.setdefault(key, [])
        cands = [b for b in lst if not any(b is e for e in exclude)]
        if stride == 2:
            self.strided += 1
        if cands and rng.random() < 0.7:
            self.reused += 1
            return cands[rng.randrange(len(cands))]
        b = Buf(shape, dtype, stride)
        self.fresh += 1
        if len(lst) < 4:
            lst.append(b)
        return b


def strided_copy(a):
    """Same values, every other element of a twice-as-long last axis; gaps hold a loud value."""
    if not isinstance(a, np.ndarray) or a.ndim < 1 or a.shape[-1] < 1:
        return a, None
    base = np.empty(a.shape[:-1] + (2 * a.shape[-1],), dtype=a.dtype)
    base[...] = 1e30 if a.dtype.kind == "f" else np.array(12345).astype(a.dtype, casting="unsafe")
    base[..., ::2] = a
    return base[..., ::2], base


def arg_digest(args):
    return [sha_arrays([a]) if isinstance(a, np.ndarray) else None for a in args]


def args_to_json(args):
    from .scenarios import arr2j

    out = []
    for a in args:
        if isinstance(a, np.ndarray):
            out.append({"nd": arr2j(a)})
        elif isinstance(a, type):
            out.append({"type": np.dtype(a).name})
        elif isinstance(a, (bool, np.bool_)):
            out.append({"b": bool(a)})
        elif isinstance(a, (int, np.integer)):
            out.append({"i": int(a)})
        else:
            out.append({"f": float(a)})
    return out


def args_from_json(j):
    from .scenarios import j2arr

    out = []
    for a in j:
        if "nd" in a:
            out.append(j2arr(a["nd"]))
        elif "type" in a:
            out.append(np.dtype(a["type"]).type)
        elif "b" in a:
            out.append(a["b"])
        elif "i" in a:
            out.append(a["i"])
        else:
            out.append(a["f"])
    return out


def call_program(prog, fn, d, pool, rng, poisons=None):
    """Execute one history entry.  Returns dict(sha, exc, violations, dirty, poisons)."""
    args = d["args"]
    before = arg_digest(args)
    viol = []
    res = {"sha": None, "exc": None, "violations": viol, "dirty": 0, "poisons": None}

    def guarded(call):
        # fault: cold CPython type-attribute cache.  When a gufunc kernel raises while FP status flags
        # are pending, numpy emits its RuntimeWarning with the exception still set; with a cache miss
        # in that path CPython clears the pending exception, the call *returns*, and the pixels after
        # the raising one were never computed.  Evicting the cache makes that outcome deterministic.
        sys._clear_type_cache()
        try:
            return call(), None
        except IndexError as e:
            return None, ("IndexError", str(e)[:200])
        except Exception as e:  # noqa: BLE001 - a refusal; must merely be repeatable
            return None, (type(e).__name__, str(e)[:120])

    if prog.kind == "gufunc" and d["outs"]:
        if poisons is None:
            pa = rng.choice(POISONS)
            pb = rng.choice([p for p in POISONS if p != pa and p != "stale"])
        else:
            pa, pb = poisons
        res["poisons"] = [pa, pb]
        shas = []
        excs = []
        used = []
        # first call: strided views of the array arguments (same values), second: as generated
        sargs, sbases = [], []
        for a in args:
            v, b = strided_copy(a) if rng.random() < 0.5 else (a, None)
            sargs.append(v)
            sbases.append(b)
        gap_before = [sha_arrays([b[..., 1::2]]) if b is not None else None for b in sbases]
        for call_no, pk in enumerate((pa, pb)):
            outs = []
            for shape, dtype in d["outs"]:
                b = pool.get(shape, dtype, rng, exclude=used + outs)
                outs.append(b)
            for b in outs:
                b.prepare(pk)
                res["dirty"] += 1
            used.extend(outs)
            views = [b.view for b in outs]
            o = tuple(views) if len(views) > 1 else views[0]
            cargs = sargs if call_no == 0 else args
            _, exc = guarded(lambda: fn(*cargs, out=o))
            excs.append(exc)
            shas.append(sha_arrays(views) if exc is None else None)
            for bi, b in enumerate(outs):
                if not b.guards_intact():
                    viol.append(("write-outside-output", f"output #{bi}: bytes outside the output array (guard band / stride gaps) were overwritten"))
        gap_after = [sha_arrays([b[..., 1::2]]) if b is not None else None for b in sbases]
        if gap_before != gap_after:
            viol.append(("write-outside-input", "bytes between the elements of a strided input view were overwritten"))
        # third call: numpy allocates the outputs itself (perturbed malloc decides their content)
        r3, exc3 = guarded(lambda: fn(*args))
        excs.append(exc3)
        shas.append(sha_arrays(flatten_result(r3)) if exc3 is None else None)
        for exc in excs:
            if exc is not None and exc[0] == "IndexError":
                viol.append(("index-out-of-bounds", f"IndexError: {exc[1]}"))
                break
        if not any(v[0] == "index-out-of-bounds" for v in viol):
            if len({e is not None for e in excs}) > 1:
                viol.append(("outcome-depends-on-buffer-content", f"exceptions differ between identical calls: {excs}"))
            elif excs[0] is None and len(set(shas)) > 1:
                which = "poisons %s/%s (first call on strided views)" % (pa, pb) if shas[0] != shas[1] else "caller buffer vs numpy-allocated buffer"
                viol.append(("output-depends-on-buffer-content", f"identical calls returned different output bytes ({which}): an output cell is not written or an out-of-range/uninitialised value is read"))
        res["sha"] = shas[0] if excs[0] is None else None
        res["exc"] = "raises" if excs[0] else None
    else:
        r1, e1 = guarded(lambda: fn(*args))
        r2, e2 = guarded(lambda: fn(*args))
        s1 = sha_arrays(flatten_result(r1)) if e1 is None else None
        s2 = sha_arrays(flatten_result(r2)) if e2 is None else None
        for exc in (e1, e2):
            if exc is not None and exc[0] == "IndexError":
                viol.append(("index-out-of-bounds", f"IndexError: {exc[1]}"))
                break
        if not viol:
            if (e1 is None) != (e2 is None):
                viol.append(("outcome-depends-on-buffer-content", f"exceptions differ between identical calls: {e1} / {e2}"))
            elif e1 is None and s1 != s2:
                viol.append(("output-not-repeatable", "two identical calls returned different bytes"))
        res["sha"] = s1
        res["exc"] = "raises" if e1 else None
    after = arg_digest(args)
    if before != after:
        idx = [i for i, (a, b) in enumerate(zip(before, after)) if a != b]
        viol.append(("input-modified", f"kernel wrote into its input argument(s) {idx}"))
    return res


def history_entry(seed, group_names, i, nb_cap):
    """Deterministic i-th entry of the group's history: (program name, mode, rng, nprng)."""
    from .kernels14 import PROGRAMS

    rng = random.Random(f"{seed}/c14/{'+'.join(group_names)}/{i}")
    name = group_names[i % len(group_names)]
    k = i // len(group_names)
    nb = min(PROGRAMS[name].nboundary, nb_cap)
    mode = f"boundary:{k}" if k < nb else "random"
    nprng = np.random.Generator(np.random.PCG64(rng.randrange(2**32)))
    return name, mode, rng, nprng


def probe_perturb():
    """Measure that the allocator knob really reaches NumPy and Numba NRT allocations."""
    import numba

    a = np.empty(4096, dtype="uint8")
    np_dirty = int(a[100])

    @numba.njit
    def f(n):
        return np.empty(n, dtype=np.uint8)

    b = f(4096)
    for _ in range(20):  # warm the small-block free lists, then look at a recycled small block
        c = f(24)
        del c
    small = f(24)
    return {"numpy_empty_byte": np_dirty, "nrt_empty_byte": int(b[100]), "nrt_small_block_bytes": [int(x) for x in small[:4]], "GLIBC_TUNABLES": os.environ.get("GLIBC_TUNABLES"), "MALLOC_PERTURB_": os.environ.get("MALLOC_PERTURB_"), "NUMBA_BOUNDSCHECK": os.environ.get("NUMBA_BOUNDSCHECK")}


def run_group(seed, group_names, budget_s, nb_cap, max_calls, out_path, repo):
    sys.path.insert(0, repo)
    import numba  # noqa: F401

    from .kernels14 import PROGRAMS

    import warnings

    warnings.simplefilter("ignore")
    t0 = time.monotonic()
    fns = {}
    pool = BufferPool()
    records = []
    violations = []
    ring = []
    tuples = set()
    ncalls = 0
    dirty = 0
    compile_s = 0.0
    samples = []
    repeats = 0
    i = 0
    hist_rng = random.Random(f"{seed}/c14hist/{'+'.join(group_names)}")
    perturb = os.environ.get("MALLOC_PERTURB_", "unset")
    try:
        pinfo = probe_perturb()
    except Exception as e:  # noqa: BLE001
        pinfo = {"error": str(e)}
    while i < max_calls:
        el = time.monotonic() - t0
        # compile time (calls > 1 s) does not eat the exploration budget, within reason
        if (el - compile_s > budget_s or el > budget_s + 600) and i >= len(group_names):
            break
        name, mode, rng, nprng = history_entry(seed, group_names, i, nb_cap)
        prog = PROGRAMS[name]
        try:
            d = prog.gen(rng, nprng, mode)
        except Exception as e:  # noqa: BLE001
            records.append({"i": i, "k": name, "gen_error": f"{type(e).__name__}: {e}"})
            i += 1
            continue
        if name not in fns:
            fns[name] = prog.resolve()
        fn = fns[name]
        tc = time.monotonic()
        res = call_program(prog, fn, d, pool, rng)
        dt = time.monotonic() - tc
        if dt > 1.0:
            compile_s += dt
        ncalls += 3 if prog.kind == "gufunc" and d["outs"] else 2
        dirty += res["dirty"]
        records.append({"i": i, "k": name, "sc": d["size_class"], "sha": res["sha"], "exc": res["exc"]})
        if res["poisons"]:
            for pk in res["poisons"]:
                tuples.add(f"{name}|{d['size_class']}|{pk}|{perturb}")
        else:
            tuples.add(f"{name}|{d['size_class']}|-|{perturb}")
        if len(samples) < 2 and mode == "random":
            samples.append({"index": i, "kernel": name, "mode": mode, "size_class": d["size_class"], "poisons": res["poisons"], "arg_shapes": [list(a.shape) if isinstance(a, np.ndarray) else repr(a) for a in d["args"]], "sha": res["sha"], "exc": res["exc"]})
        for vclass, msg in res["violations"]:
            violations.append({"i": i, "upto": i, "kernel": name, "class": vclass, "message": msg, "size_class": d["size_class"], "mode": mode, "poisons": res["poisons"], "args": args_to_json(d["args"]), "outs": [[list(s), str(t)] for s, t in d["outs"]]})
        # A2-iii: re-issue an earlier call later in the history, on other buffers
        if res["sha"] is not None and not res["violations"]:
            if len(ring) < 8:
                ring.append((name, d, res["sha"], i))
            else:
                ring[hist_rng.randrange(8)] = (name, d, res["sha"], i)
        if ring and hist_rng.random() < 0.15:
            rname, rd, rsha, ri = ring[hist_rng.randrange(len(ring))]
            r2 = call_program(PROGRAMS[rname], fns[rname], rd, pool, hist_rng)
            ncalls += 3 if PROGRAMS[rname].kind == "gufunc" and rd["outs"] else 2
            repeats += 1
            if r2["sha"] != rsha and not r2["violations"]:
                violations.append({"i": ri, "upto": i, "kernel": rname, "class": "output-not-repeatable", "message": f"call #{ri} re-issued at history position {i} returned different bytes", "size_class": rd["size_class"], "mode": "repeat", "poisons": r2["poisons"], "args": args_to_json(rd["args"]), "outs": [[list(s), str(t)] for s, t in rd["outs"]]})
            for vclass, msg in r2["violations"]:
                violations.append({"i": ri, "upto": i, "kernel": rname, "class": vclass, "message": msg + f" (on re-issue at history position {i})", "size_class": rd["size_class"], "mode": "repeat", "poisons": r2["poisons"], "args": args_to_json(rd["args"]), "outs": [[list(s), str(t)] for s, t in rd["outs"]]})
        if len(violations) > 40:
            break
        i += 1
    out = {
        "group": group_names,
        "perturb": perturb,
        "seed": seed,
        "entries": i,
        "calls": ncalls,
        "dirty_buffers": dirty,
        "buffers_reused": pool.reused,
        "buffers_fresh": pool.fresh,
        "buffers_strided": pool.strided,
        "repeats": repeats,
        "tuples": sorted(tuples),
        "records": records,
        "violations": violations,
        "samples": samples,
        "probe": pinfo,
        "wall_s": time.monotonic() - t0,
        "slow_call_s": compile_s,
    }
    with open(out_path, "w") as f:
        json.dump(out, f)
    return out


def replay_single(payload, repo):
    """Re-run one recorded call in this process (env already set by the parent)."""
    sys.path.insert(0, repo)
    from .kernels14 import PROGRAMS

    prog = PROGRAMS[payload["kernel"]]
    fn = prog.resolve()
    d = {"args": args_from_json(payload["args"]), "outs": [(tuple(s), t) for s, t in payload["outs"]], "size_class": payload.get("size_class", "?")}
    pool = BufferPool()
    rng = random.Random(0)
    pois = payload.get("poisons")
    res = call_program(prog, fn, d, pool, rng, poisons=tuple(pois) if pois else None)
    return {"sha": res["sha"], "exc": res["exc"], "violations": res["violations"]}


def main():
    import argparse

    ap = argparse.ArgumentParser()
    ap.add_argument("--group", type=int)
    ap.add_argument("--seed", type=int, default=0)
    ap.add_argument("--budget", type=float, default=30)
    ap.add_argument("--nb-cap", type=int, default=10**6)
    ap.add_argument("--max-calls", type=int, default=10**9)
    ap.add_argument("--out")
    ap.add_argument("--repo", default="/repo")
    ap.add_argument("--replay-single", default=None)
    a = ap.parse_args()
    import faulthandler

    faulthandler.enable()
    faulthandler.dump_traceback_later(int(a.budget) + 1500, exit=True)
    if a.replay_single:
        with open(a.replay_single) as f:
            payload = json.load(f)
        r = replay_single(payload, a.repo)
        print("RESULT " + json.dumps(r))
        return
    sys.path.insert(0, a.repo)
    from .kernels14 import GROUPS

    try:
        run_group(a.seed, GROUPS[a.group], a.budget, a.nb_cap, a.max_calls, a.out, a.repo)
    except Exception:  # noqa: BLE001
        traceback.print_exc()
        sys.exit(3)


if __name__ == "__main__":
    main()
