"""dask's local scheduler state machine (real) on a simulated executor.

``dask.local.get_async`` takes the executor's ``submit`` as an argument and its only
blocking wait is the module-level ``dask.local.queue_get``.  We pass a simulated
``submit`` (each job is a simulated thread) and swap ``queue_get`` for a version
that parks the scheduler thread inside the simulator.  Everything else --
``order``, ``start_state_from_dask``, ``fire_tasks``, ``finish_task``, data release --
is dask's own code.
"""

from __future__ import annotations

import sys
from concurrent.futures import Future

import numpy as np

import dask.local as dlocal

from .sched import current_sim

_orig_queue_get = dlocal.queue_get


def _sim_queue_get(q):
    sim = current_sim()
    if sim is None:
        return _orig_queue_get(q)
    if q.qsize() > 1:
        sim.probe("scheduler_woke_with_multiple_results")
    if q.empty():
        sim.block("queue_get", lambda: not q.empty())
        if q.qsize() > 1:
            sim.probe("scheduler_woke_with_multiple_results")
    return q.get_nowait()


def install():
    dlocal.queue_get = _sim_queue_get


def pack_exception(e, dumps):
    return e, sys.exc_info()[2]


def deep_equal(a, b):
    """Bit-level equality of task results (arrays, scalars, containers)."""
    if isinstance(a, np.ndarray) or isinstance(b, np.ndarray):
        if not (isinstance(a, np.ndarray) and isinstance(b, np.ndarray)):
            return False
        if a.dtype != b.dtype or a.shape != b.shape:
            return False
        if a.dtype == object:
            return all(deep_equal(x, y) for x, y in zip(a.ravel(), b.ravel()))
        return np.ascontiguousarray(a).tobytes() == np.ascontiguousarray(b).tobytes()
    if _is_xr(a) or _is_xr(b):
        return _xr_equal(a, b)
    if isinstance(a, (list, tuple)):
        return (
            type(a) is type(b)
            and len(a) == len(b)
            and all(deep_equal(x, y) for x, y in zip(a, b))
        )
    if isinstance(a, dict):
        return (
            isinstance(b, dict)
            and a.keys() == b.keys()
            and all(deep_equal(a[k], b[k]) for k in a)
        )
    if isinstance(a, BaseException) or isinstance(b, BaseException):
        # two failed executions are the same outcome.  (Type/message are deliberately not compared:
        # when a gufunc kernel raises while FP status flags are set, numpy emits its RuntimeWarning
        # with the exception pending and the surfacing type -- ValueError or SystemError -- depends on
        # the warnings registry, i.e. on process history, not on hdc-algo.)
        return isinstance(a, BaseException) and isinstance(b, BaseException)
    if hasattr(a, "tb_frame"):
        return hasattr(b, "tb_frame")
    if isinstance(a, float) and isinstance(b, float):
        return np.float64(a).tobytes() == np.float64(b).tobytes()
    try:
        r = a == b
        if isinstance(r, np.ndarray):
            return bool(r.all())
        return bool(r)
    except Exception:  # noqa: BLE001
        return a is b


def _is_xr(o):
    import xarray as xr

    return isinstance(o, (xr.DataArray, xr.Dataset, xr.Variable))


def _xr_equal(a, b):
    import xarray as xr

    if type(a) is not type(b):
        return False
    if isinstance(a, xr.Variable):
        return a.dims == b.dims and deep_equal(np.asarray(a.data), np.asarray(b.data))
    if isinstance(a, xr.DataArray):
        if not _xr_equal(a.variable, b.variable):
            return False
        if set(a.coords) != set(b.coords):
            return False
        return all(_xr_equal(a.coords[k].variable, b.coords[k].variable) for k in a.coords)
    if set(a.variables) != set(b.variables):
        return False
    return all(_xr_equal(a.variables[k], b.variables[k]) for k in a.variables)


class SimExecutor:
    """The ``submit`` handed to get_async.  One simulated thread per job."""

    def __init__(self, sim, dup_exec=False, dup_rate=0.2):
        self.sim = sim
        self.dup_exec = dup_exec
        self.dup_rate = dup_rate
        self.submitted = 0
        self.completed_order = []
        self.violations = []  # (class, message)
        self.inflight = 0
        self.max_inflight = 0

    def submit(self, fn, *args, **kwargs):
        sim = self.sim
        fut = Future()
        jid = self.submitted
        self.submitted += 1
        n = 1
        pick = 0
        if self.dup_exec and sim.flip("dup-exec", self.dup_rate):
            n = 2
            pick = sim.draw("dup-pick", 2)
            sim.probe("dup_exec_fired")
        results = {}
        running = [0]

        def make(i):
            def job():
                sim.yield_point(("task-start", jid, i))
                running[0] += 1
                self.inflight += 1
                self.max_inflight = max(self.max_inflight, self.inflight)
                if running[0] == 2:
                    sim.probe("dup_exec_overlapped")
                try:
                    r = fn(*args, **kwargs)
                    ok = True
                except Exception as e:  # noqa: BLE001 - get_async's fn never raises; be safe
                    r = e
                    ok = False
                running[0] -= 1
                self.inflight -= 1
                if sim.aborting:
                    return  # run is being torn down; whatever fn returned is an artefact of the abort
                results[i] = (ok, r)
                if len(results) == n:
                    if n == 2 and not deep_equal(results[0], results[1]):
                        self.violations.append(
                            ("dup-exec-differs", f"job {jid}: two executions of one task returned different results")
                        )
                    ok_, r_ = results[pick]
                    if self.completed_order and jid < max(self.completed_order):
                        sim.probe("task_completed_out_of_submission_order")
                    self.completed_order.append(jid)
                    if ok_:
                        fut.set_result(r_)
                    else:
                        fut.set_exception(r_)
                sim.yield_point(("task-end", jid, i))

            return job

        for i in range(n):
            sim.spawn(make(i), name="w")
        return fut


def make_get(sim, num_workers, dup_exec=False, dup_rate=0.2):
    """Return (get, executor): ``get`` is usable as ``compute(scheduler=get)``."""
    ex = SimExecutor(sim, dup_exec=dup_exec, dup_rate=dup_rate)

    def sim_get(dsk, keys, **kwargs):
        kwargs.pop("num_workers", None)
        kwargs.pop("pool", None)
        return dlocal.get_async(
            ex.submit,
            num_workers,
            dsk,
            keys,
            pack_exception=pack_exception,
            **kwargs,
        )

    return sim_get, ex
