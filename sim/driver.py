"""Shared batch driver: forked worker processes, time budgets, violation plumbing,
known findings, replay files, evidence."""

from __future__ import annotations

import faulthandler
import hashlib
import json
import multiprocessing as mp
import os
import sys
import time

VERIF = os.path.dirname(os.path.dirname(os.path.abspath(__file__)))
REPLAY_DIR = os.path.join(VERIF, "replays")
EVIDENCE_DIR = os.path.join(VERIF, "evidence")
KNOWN_FILE = os.path.join(VERIF, "known_findings.json")


def reexec_with_hashseed(extra_env=None):
    """Make the interpreter's hash seed (and any extra env knobs) part of the fixed setup."""
    want = {"PYTHONHASHSEED": os.environ.get("VERIF_HASHSEED", "0")}
    want.update(extra_env or {})
    if all(os.environ.get(k) == v for k, v in want.items()):
        return
    if os.environ.get("HDC_VERIF_REEXEC") == "1":
        return
    env = dict(os.environ)
    env.update(want)
    env["HDC_VERIF_REEXEC"] = "1"
    os.execve(sys.executable, [sys.executable] + sys.argv, env)


def seed_from_env():
    try:
        return int(os.environ.get("VERIF_SEED", "0"))
    except ValueError:
        return 0


def repo_dir():
    return os.environ.get("HDC_VERIF_REPO", "/repo")


def point_at_repo():
    """Import ``hdc`` from the chosen working tree (default /repo)."""
    rd = repo_dir()
    if rd not in sys.path:
        sys.path.insert(0, rd)


def load_known():
    try:
        with open(KNOWN_FILE) as f:
            return json.load(f)
    except FileNotFoundError:
        return {"findings": [], "fixed": []}


def match_known(known, prop, vclass, key):
    """A finding matches when property, class and every entry of its 'where' dict agree."""
    for f in known.get("findings", []):
        if f.get("property") != prop or f.get("class") != vclass:
            continue
        where = f.get("where", {})
        ok = True
        for k, v in where.items():
            kv = key.get(k)
            if isinstance(v, list):
                if kv not in v:
                    ok = False
            elif kv != v:
                ok = False
        if ok:
            return f
    return None


def write_replay(prop, payload):
    os.makedirs(REPLAY_DIR, exist_ok=True)
    blob = json.dumps(payload, sort_keys=True)
    h = hashlib.sha1(blob.encode()).hexdigest()[:12]
    path = os.path.join(REPLAY_DIR, f"{prop}-{h}.json")
    with open(path, "w") as f:
        f.write(blob)
    return path


def write_evidence(prop, ev):
    os.makedirs(EVIDENCE_DIR, exist_ok=True)
    path = os.path.join(EVIDENCE_DIR, f"{prop}.json")
    tmp = path + ".tmp"
    with open(tmp, "w") as f:
        json.dump(ev, f, indent=1, sort_keys=True, default=str)
    os.replace(tmp, path)
    return path


def tmp_root():
    """Scratch space outside /repo and /verif (removed by whoever creates something in it)."""
    import tempfile

    for d in (os.environ.get("VERIF_TMP"), "/var/tmp"):
        if d and os.path.isdir(d) and os.access(d, os.W_OK):
            return d
    return tempfile.gettempdir()


def _worker_entry(fn, job, hang_s, out_path):
    import pickle

    faulthandler.enable()
    faulthandler.dump_traceback_later(hang_s, exit=True)

    def checkpoint(partial):
        """Persist what the job has found so far: if the process is later killed by the code under
        test (e.g. memory corruption in a kernel), the violations already found are still reported."""
        try:
            with open(out_path + ".part.tmp", "wb") as f:
                pickle.dump(partial, f)
            os.replace(out_path + ".part.tmp", out_path + ".part")
        except Exception:  # noqa: BLE001
            pass

    job = dict(job)
    job["_checkpoint"] = checkpoint
    try:
        res = fn(job)
        with open(out_path + ".tmp", "wb") as f:
            pickle.dump(res, f)
        os.replace(out_path + ".tmp", out_path)
    finally:
        faulthandler.cancel_dump_traceback_later()
    sys.stdout.flush()
    os._exit(0)


def run_jobs(fn, jobs, nproc=16, hang_s=900, spawn=False):
    """Run every job in its own forked process (at most ``nproc`` at a time).

    Returns (results, harness_errors).  A worker that dies (segfault, hang watchdog) fails only
    its own job -- reported as a harness error -- and never the batch."""
    import pickle
    import shutil
    import tempfile

    ctx = mp.get_context("spawn" if spawn else "fork")
    tmp = tempfile.mkdtemp(prefix="hdcsim_jobs_", dir=tmp_root())
    results = []
    errors = []
    pending = list(enumerate(jobs))
    running = []
    try:
        while pending or running:
            while pending and len(running) < nproc:
                idx, job = pending.pop(0)
                out = os.path.join(tmp, f"job{idx}.pkl")
                pr = ctx.Process(target=_worker_entry, args=(fn, job, hang_s, out))
                pr.start()
                running.append((pr, job, out, time.monotonic()))
            time.sleep(0.05)
            still = []
            for pr, job, out, ts in running:
                if pr.is_alive():
                    if time.monotonic() - ts > hang_s + 60:
                        pr.kill()
                        pr.join()
                        errors.append(f"job {job.get('name', job)!r}: exceeded {hang_s}s, killed")
                    else:
                        still.append((pr, job, out, ts))
                    continue
                pr.join()
                if os.path.exists(out):
                    try:
                        with open(out, "rb") as f:
                            results.append(pickle.load(f))
                    except Exception as e:  # noqa: BLE001
                        errors.append(f"job {job.get('name', job)!r}: unreadable result: {e}")
                else:
                    errors.append(f"job {job.get('name', job)!r}: worker process died (exit code {pr.exitcode}) before reporting")
                    if os.path.exists(out + ".part"):
                        try:
                            with open(out + ".part", "rb") as f:
                                results.append(pickle.load(f))
                            errors[-1] += " (its last checkpoint is included)"
                        except Exception:  # noqa: BLE001
                            pass
            running = still
    finally:
        for pr, *_ in running:
            if pr.is_alive():
                pr.kill()
        shutil.rmtree(tmp, ignore_errors=True)
    return results, errors


class Stopwatch:
    def __init__(self, budget_s, max_credit=0.0):
        self.t0 = time.monotonic()
        self.budget = budget_s
        self.max_credit = max_credit
        self.credited = 0.0

    def credit(self, seconds):
        """Give time back that was spent compiling (a run far slower than normal), within a cap, so
        that operations with many numba specialisations still get their share of runs."""
        c = min(seconds, self.max_credit - self.credited)
        if c > 0:
            self.credited += c
            self.budget += c

    def left(self):
        return self.budget - (time.monotonic() - self.t0)

    def expired(self):
        return self.left() <= 0
