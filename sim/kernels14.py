"""C14 program catalogue: every compiled kernel with an in-contract input generator.

``PROGRAMS[name] = Program(kind, resolve, gen)``
  kind    : "gufunc" (called with caller-supplied, poisoned ``out=`` buffers) or "njit"
  resolve : () -> callable (looked up in the working tree at run time)
  gen     : (rng, nprng, mode) -> dict(args=[...], outs=[(shape, dtype), ...], size_class=str)
            ``mode`` is "boundary:<k>" (k-th boundary case, cycling) or "random".

Generators emit only inputs that satisfy the documented contracts (DESIGN 4.1).
"""

from __future__ import annotations

import importlib

import numpy as np

NODATA = -3000.0


def _mod(name):
    return importlib.import_module(name)


def _attr(modname, attr):
    def r():
        m = _mod(modname)
        f = getattr(m, attr)
        return f

    return r


class Program:
    def __init__(self, kind, resolve, gen, nb=1):
        self.kind = kind
        self.resolve = resolve
        self.gen = gen
        self.nboundary = nb


# ---------------------------------------------------------------------------
# series generators
# ---------------------------------------------------------------------------

LENGTHS_SMOOTH = [2, 3, 4, 5, 6, 7, 9, 12, 24, 36]
VALID_MODES = ["all", "none", "one", "two", "threshold", "some", "runs", "zeros", "const", "mostly-zero", "ties"]


def series(nprng, n, dtype, valid="some", nodata=NODATA, kind="ndvi"):
    t = np.arange(n)
    if kind == "ndvi":
        v = 3000 + 2500 * np.sin(2 * np.pi * t / max(6, n / 2) + nprng.random() * 6) + nprng.normal(0, 400, n)
    elif kind == "precip":
        v = nprng.gamma(2.0, 30.0, size=n)
        v[nprng.random(n) < 0.15] = 0
    elif kind == "binary":
        v = (nprng.random(n) < 0.6).astype("float64")
    else:
        v = nprng.integers(0, 900, n).astype("float64")
    if np.dtype(dtype).kind in "iu":
        v = np.round(v)
    v = v.astype(dtype)
    nd = np.dtype(dtype).type(nodata) if np.dtype(dtype).kind != "u" else np.dtype(dtype).type(255)
    if valid == "all":
        pass
    elif valid == "none":
        v[:] = nd
    elif valid == "one":
        keep = int(nprng.integers(0, n))
        x = v[keep]
        v[:] = nd
        v[keep] = x
    elif valid == "two":
        keep = nprng.choice(n, size=min(2, n), replace=False)
        x = v[keep].copy()
        v[:] = nd
        v[keep] = x
    elif valid == "threshold":
        k = min(n, 5)
        keep = nprng.choice(n, size=k, replace=False)
        x = v[keep].copy()
        v[:] = nd
        v[keep] = x
    elif valid == "some":
        v[nprng.random(n) < 0.2] = nd
    elif valid == "runs":
        a = int(nprng.integers(0, n))
        b = int(min(n, a + nprng.integers(1, max(2, n // 2))))
        v[a:b] = nd
    elif valid == "zeros":
        v[:] = 0
    elif valid == "const":
        v[:] = v[int(nprng.integers(0, n))]
    elif valid == "mostly-zero":
        keep = int(nprng.integers(0, n))
        x = v[keep]
        v[:] = 0
        v[keep] = x
    elif valid == "ties":
        # few distinct values, the maximum repeated
        lv = np.sort(v)[:: max(1, n // 3)][:3]
        v[:] = lv[nprng.integers(0, len(lv), n)]
        v[int(nprng.integers(0, n))] = v.max()
        v[0] = v.max()
    return v


def _pix(rng):
    return rng.choice([(), (1,), (3,), (2, 2)])


def _batch(nprng, rng, n, dtype, mode, kind="ndvi", lengths=LENGTHS_SMOOTH, nodata=NODATA):
    """(batch_shape + (n,)) array of series; boundary modes sweep length x validity."""
    if mode.startswith("boundary"):
        k = int(mode.split(":")[1])
        n = lengths[k % len(lengths)]
        valid = VALID_MODES[(k // len(lengths)) % len(VALID_MODES)]
        bs = [(), (1,), (3,)][(k // (len(lengths) * len(VALID_MODES))) % 3]
    else:
        valid = rng.choice(VALID_MODES)
        bs = _pix(rng)
    cnt = int(np.prod(bs)) if bs else 1
    rows = [series(nprng, n, dtype, valid if (i == 0 or rng.random() < 0.5) else "some", nodata, kind) for i in range(cnt)]
    a = np.stack(rows).reshape(bs + (n,))
    return a, n, valid, bs


def _rand_len(rng, lo=2, hi=200):
    r = rng.random()
    if r < 0.5:
        return rng.randint(lo, max(lo, 12))
    if r < 0.9:
        return rng.randint(lo, 60)
    return rng.randint(lo, hi)


NB_SMOOTH = len(LENGTHS_SMOOTH) * len(VALID_MODES) * 3


def _srange(rng, mode):
    if mode.startswith("boundary"):
        k = int(mode.split(":")[1])
        n = [2, 3, 8][k % 3]
    else:
        n = rng.randint(2, 12)
    lo = rng.choice([-2.0, -1.0, 0.0])
    step = rng.choice([0.2, 0.5, 1.0])
    return np.array([lo + i * step for i in range(n)], dtype="float64")


def gen_ws2dgu(rng, nprng, mode):
    y, n, valid, bs = _batch(nprng, rng, _rand_len(rng), "float64", mode)
    if rng.random() < 0.15:
        y = y.copy()
        y.reshape(-1)[nprng.random(y.size) < 0.1] = np.nan
    lmda = rng.choice([0.0, 0.01, 1.0, 10.0, 1e3, 1e6])
    return {"args": [y, float(lmda), NODATA], "outs": [(bs + (n,), "int16")], "size_class": f"n{n}/{valid}/b{len(bs)}"}


def gen_ws2dpgu(rng, nprng, mode):
    d = gen_ws2dgu(rng, nprng, mode)
    d["args"].append(rng.choice([0.5, 0.9, 0.95]))
    return d


def gen_ws2doptv(rng, nprng, mode):
    y, n, valid, bs = _batch(nprng, rng, _rand_len(rng), "float64", mode)
    ll = _srange(rng, mode)
    return {"args": [y, NODATA, ll], "outs": [(bs + (n,), "int16"), (bs, "float64")], "size_class": f"n{n}/{valid}/s{len(ll)}"}


def gen_ws2doptvp(rng, nprng, mode):
    y, n, valid, bs = _batch(nprng, rng, _rand_len(rng), "float64", mode)
    ll = _srange(rng, mode)
    return {"args": [y, NODATA, rng.choice([0.5, 0.9, 0.95]), ll], "outs": [(bs + (n,), "int16"), (bs, "float64")], "size_class": f"n{n}/{valid}/s{len(ll)}"}


def gen_ws2doptvplc(rng, nprng, mode):
    y, n, valid, bs = _batch(nprng, rng, _rand_len(rng), "int16", mode)
    lc = rng.choice([-0.5, 0.0, 0.5, 0.51, 0.9, float("nan")])
    return {"args": [y, NODATA, rng.choice([0.5, 0.9, 0.95]), lc], "outs": [(bs + (n,), "int16"), (bs, "float64")], "size_class": f"n{n}/{valid}/lc{lc}"}


def _maybe_nan(y, rng, nprng):
    # these kernels give NaN/inf cells zero weight explicitly, so such cells are in their domain
    if rng.random() < 0.15:
        y = y.copy()
        y.reshape(-1)[nprng.random(y.size) < 0.1] = np.nan
    return y


def gen_ws2dwcv(rng, nprng, mode):
    y, n, valid, bs = _batch(nprng, rng, _rand_len(rng), "float64", mode)
    y = _maybe_nan(y, rng, nprng)
    ll = _srange(rng, mode)
    robust = rng.choice([True, False])
    return {"args": [y, NODATA, ll, robust], "outs": [(bs + (n,), "int16"), (bs, "float64")], "size_class": f"n{n}/{valid}/s{len(ll)}/r{int(robust)}"}


def gen_ws2dwcvp(rng, nprng, mode):
    y, n, valid, bs = _batch(nprng, rng, _rand_len(rng), "float64", mode)
    y = _maybe_nan(y, rng, nprng)
    ll = _srange(rng, mode)
    robust = rng.choice([True, False])
    return {"args": [y, NODATA, rng.choice([0.5, 0.9, 0.95]), ll, robust], "outs": [(bs + (n,), "int16"), (bs, "float64")], "size_class": f"n{n}/{valid}/s{len(ll)}/r{int(robust)}"}


def gen_tinterpolate(rng, nprng, mode):
    # contract: daily template of length >= 4 with as many marks as observations; contiguous
    # labels; template_out sized to the number of distinct labels
    if mode.startswith("boundary"):
        k = int(mode.split(":")[1])
        n = [2, 2, 3, 4, 5, 9][k % 6]
        m = [4, 5, 6, 12, 30, 90][(k // 6) % 6]
        m = max(m, n, 4)
        g = [1, 2, m, 10][(k // 36) % 4]
        bs = [(), (1,), (3,)][(k // 144) % 3]
    else:
        n = rng.randint(2, 40)
        m = max(4, n + rng.randint(0, 10 * n))
        g = rng.randint(1, m)
        bs = _pix(rng)
    cnt = int(np.prod(bs)) if bs else 1
    x = np.stack([series(nprng, n, "int16", "all") for _ in range(cnt)]).reshape(bs + (n,))
    template = np.zeros(m, dtype="float64")
    pos = sorted(rng.sample(range(m), n))
    template[pos] = 1
    labels = (np.arange(m) // max(1, g)).astype("int32") + rng.choice([0, 0, 7, 2000])
    nl = int(np.unique(labels).size)
    template_out = np.zeros(nl, dtype="uint8")
    return {"args": [x, template, labels, template_out], "outs": [(bs + (nl,), "int16")], "size_class": f"n{n}/m{m}/l{nl}"}


def gen_lroo(rng, nprng, mode):
    y, n, valid, bs = _batch(nprng, rng, _rand_len(rng, 1), "uint8", mode, kind="binary", lengths=[1, 2, 3, 4, 5, 8, 12, 24, 36, 72])
    return {"args": [y], "outs": [(bs, "uint8")], "size_class": f"n{n}/{valid}"}


def _groups(rng, n, mode):
    if mode.startswith("boundary"):
        k = int(mode.split(":")[1])
        ng = [1, 2, n, max(1, n // 2)][(k // 7) % 4]
    else:
        ng = rng.randint(1, n)
    ng = max(1, min(ng, n))
    r = rng.random()
    if r < 0.3:
        g = np.array(sorted(i % ng for i in range(n)), dtype="int16")
    elif r < 0.6:
        g = np.array([i % ng for i in range(n)], dtype="int16")
    elif r < 0.8:
        # unbalanced: ids drawn at random (a group may be large, small or have no member at all --
        # all ids stay within 0..ng-1, which is what the contract asks for)
        g = np.array([rng.randrange(ng) for _ in range(n)], dtype="int16")
        if rng.random() < 0.5:
            g = np.sort(g)
    else:
        # skewed: most observations in one group
        big = rng.randrange(ng)
        g = np.array([big if rng.random() < 0.7 else rng.randrange(ng) for _ in range(n)], dtype="int16")
        if rng.random() < 0.5:
            g = np.sort(g)
    return g, ng


def gen_gammastd_grp(rng, nprng, mode):
    dtype = rng.choice(["int16", "float32"])
    y, n, valid, bs = _batch(nprng, rng, _rand_len(rng, 2, 120), dtype, mode, kind="precip", lengths=[2, 3, 4, 6, 9, 12, 24, 36, 72, 108])
    g, ng = _groups(rng, n, mode)
    cal = np.zeros((ng, 2), dtype="int16")
    for gi in range(ng):
        cnt = int((g == gi).sum())
        a = rng.randint(0, max(0, cnt - 1))
        b = rng.randint(a, cnt)
        if rng.random() < 0.6:
            a, b = 0, cnt
        cal[gi] = (a, b)
    return {"args": [y, g, float(ng), NODATA, cal], "outs": [(bs + (n,), "int16")], "size_class": f"n{n}/{valid}/g{ng}/{dtype}"}


def gen_mk_nd(rng, nprng, mode):
    dtype = rng.choice(["int16", "float32"])
    y, n, valid, bs = _batch(nprng, rng, _rand_len(rng, 2, 80), dtype, mode, kind=rng.choice(["ndvi", "smallint"]), lengths=[2, 3, 4, 5, 7, 10, 12, 24, 36, 50])
    return {"args": [y, NODATA], "outs": [(bs, "float32"), (bs, "float32"), (bs, "float32"), (bs, "int8")], "size_class": f"n{n}/{valid}/{dtype}"}


def gen_mk(rng, nprng, mode):
    d = gen_mk_nd(rng, nprng, mode)
    d["args"] = d["args"][:1]
    return d


def gen_mean_grp(rng, nprng, mode):
    dtype = rng.choice(["float32", "int16", "int32", "int64"])
    y, n, valid, bs = _batch(nprng, rng, _rand_len(rng, 1, 120), dtype, mode, kind="smallint", lengths=[1, 2, 3, 4, 6, 9, 12, 24, 36, 72])
    g, ng = _groups(rng, n, mode)
    return {"args": [y, g, float(ng), NODATA], "outs": [(bs + (n,), "float32")], "size_class": f"n{n}/{valid}/g{ng}/{dtype}"}


def gen_rolling_sum(rng, nprng, mode):
    dtype = rng.choice(["float32", "int16", "int64"])
    y, n, valid, bs = _batch(nprng, rng, _rand_len(rng, 1, 120), dtype, mode, kind="precip", lengths=[1, 2, 3, 4, 6, 9, 12, 24, 36, 72])
    if mode.startswith("boundary"):
        k = int(mode.split(":")[1])
        w = [1, n, 2, max(1, n - 1)][(k // 5) % 4]
    else:
        w = rng.choice([1, n, rng.randint(1, n)])
    w = max(1, min(w, n))
    return {"args": [y, float(w), NODATA], "outs": [(bs + (n,), "float32")], "size_class": f"n{n}/{valid}/w{w}/{dtype}"}


# ---- njit drivers ------------------------------------------------------------


def _one_series(rng, nprng, mode, dtype="float64", lengths=LENGTHS_SMOOTH, kind="ndvi", lo=2):
    if mode.startswith("boundary"):
        k = int(mode.split(":")[1])
        n = lengths[k % len(lengths)]
        valid = VALID_MODES[(k // len(lengths)) % len(VALID_MODES)]
    else:
        n = _rand_len(rng, lo)
        valid = rng.choice(VALID_MODES)
    return series(nprng, n, dtype, valid, NODATA, kind), n, valid


def _ensure_valid(y, w, need, nprng):
    """Internal solvers are only ever called behind their callers' minimum-valid-count guards
    (n > 1 for ws2d/_ws2doptvp, n > 4 for the GCV solver): honour that contract."""
    n = len(y)
    need = min(need, n)
    if int((w > 0).sum()) < need:
        idx = nprng.choice(n, size=need, replace=False)
        w = w.copy()
        y = y.copy()
        w[idx] = 1.0
        y[idx] = np.round(3000 + nprng.normal(0, 400, need))
    return y, w


def gen_ws2d(rng, nprng, mode):
    y, n, valid = _one_series(rng, nprng, mode)
    w = (y != NODATA).astype("float64")
    y, w = _ensure_valid(y, w, 2, nprng)
    if rng.random() < 0.3:
        w = w * nprng.random(n)
    lmda = rng.choice([0.01, 1.0, 10.0, 1e3, 1e6])
    return {"args": [y, float(lmda), w], "outs": [], "size_class": f"n{n}/{valid}"}


def gen__ws2doptvp(rng, nprng, mode, need=2):
    y, n, valid = _one_series(rng, nprng, mode)
    w = (y != NODATA).astype("float64")
    y, w = _ensure_valid(y, w, need, nprng)
    y = np.where(w == 0, 0.0, y)
    return {"args": [y, w, rng.choice([0.5, 0.9]), _srange(rng, mode)], "outs": [], "size_class": f"n{n}/{valid}"}


def gen__ws2dwcvp(rng, nprng, mode):
    d = gen__ws2doptvp(rng, nprng, mode, need=5)
    d["args"].append(rng.choice([True, False]))
    return d


def _cube(rng, nprng, mode, dtype, order, kind="ndvi", lengths=(2, 3, 4, 5, 7, 12, 24), lo=2):
    """3-d cube with the time axis first ('tyx') or last ('yxt')."""
    if mode.startswith("boundary"):
        k = int(mode.split(":")[1])
        n = lengths[k % len(lengths)]
        r, c = [(1, 1), (1, 3), (3, 1), (2, 2)][(k // len(lengths)) % 4]
        valid = VALID_MODES[(k // (len(lengths) * 4)) % len(VALID_MODES)]
    else:
        n = _rand_len(rng, lo, 60)
        r, c = rng.randint(1, 4), rng.randint(1, 4)
        valid = rng.choice(VALID_MODES)
    rows = [series(nprng, n, dtype, valid if (i == 0 or rng.random() < 0.4) else "some", NODATA, kind) for i in range(r * c)]
    a = np.stack(rows).reshape(r, c, n)
    if order == "tyx":
        a = np.ascontiguousarray(np.moveaxis(a, 2, 0))
    return a, n, (r, c), valid


def gen_ws2doptvplc_tyx(rng, nprng, mode):
    a, n, rc, valid = _cube(rng, nprng, mode, "int16", "tyx")
    return {"args": [a, rng.choice([0.5, 0.9, 0.95]), NODATA], "outs": [], "size_class": f"n{n}/{rc}/{valid}"}


def gen_gammafit(rng, nprng, mode):
    y, n, valid = _one_series(rng, nprng, mode, "float64", [1, 2, 3, 4, 6, 9, 12, 24, 36, 72], "precip", lo=1)
    return {"args": [y], "outs": [], "size_class": f"n{n}/{valid}"}


def gen_gammastd(rng, nprng, mode):
    dtype = rng.choice(["int16", "float32", "float64"])
    y, n, valid = _one_series(rng, nprng, mode, dtype, [2, 3, 4, 6, 9, 12, 24, 36, 72, 108], "precip")
    a = rng.randint(0, n - 1)
    b = rng.randint(a + 1, n)
    if rng.random() < 0.5:
        a, b = 0, n
    return {"args": [y, NODATA, a, b], "outs": [], "size_class": f"n{n}/{valid}/{dtype}"}


def gen_gammastd_yxt(rng, nprng, mode):
    dtype = rng.choice(["int16", "float32"])
    a, n, rc, valid = _cube(rng, nprng, mode, dtype, "yxt", "precip")
    s = rng.randint(0, n - 1)
    e = rng.randint(s + 1, n)
    if rng.random() < 0.5:
        s, e = 0, n
    return {"args": [a, NODATA, s, e], "outs": [], "size_class": f"n{n}/{rc}/{valid}/{dtype}"}


def gen_mk1(rng, nprng, mode):
    dtype = rng.choice(["int16", "float32", "float64"])
    y, n, valid = _one_series(rng, nprng, mode, dtype, [2, 3, 4, 5, 7, 10, 12, 24, 36, 50], rng.choice(["ndvi", "smallint"]))
    return {"args": [y], "outs": [], "size_class": f"n{n}/{valid}/{dtype}"}


def gen_mk_z(rng, nprng, mode):
    s = rng.choice([-5, -1, 0, 1, 7, 100])
    return {"args": [s, float(rng.choice([1.0, 5.5, 100.0]))], "outs": [], "size_class": f"s{s}"}


def gen_mk_p(rng, nprng, mode):
    z = rng.choice([-3.0, -1.96, 0.0, 0.5, 1.96, 4.0])
    return {"args": [z], "outs": [], "size_class": f"z{z}"}


def gen_mk_yxt(rng, nprng, mode):
    dtype = rng.choice(["int16", "float32"])
    a, n, rc, valid = _cube(rng, nprng, mode, dtype, "yxt", "smallint")
    return {"args": [a], "outs": [], "size_class": f"n{n}/{rc}/{valid}/{dtype}"}


def gen_ac_int(rng, nprng, mode):
    dtype = rng.choice(["int16", "int32", "uint8"])
    y, n, valid = _one_series(rng, nprng, mode, dtype, [2, 3, 4, 5, 7, 12, 24, 36, 72, 100], "smallint")
    nd = 255 if dtype == "uint8" else int(NODATA)
    return {"args": [y, nd], "outs": [], "size_class": f"n{n}/{valid}/{dtype}"}


def gen_ac_float(rng, nprng, mode):
    dtype = rng.choice(["float32", "float64"])
    y, n, valid = _one_series(rng, nprng, mode, dtype, [2, 3, 4, 5, 7, 12, 24, 36, 72, 100])
    y = y.copy()
    y[y == NODATA] = np.nan
    return {"args": [y], "outs": [], "size_class": f"n{n}/{valid}/{dtype}"}


def gen_ac_1d(rng, nprng, mode):
    if rng.random() < 0.5:
        return gen_ac_int(rng, nprng, mode)
    d = gen_ac_float(rng, nprng, mode)
    return d


def gen_autocorr(rng, nprng, mode):
    if rng.random() < 0.5:
        a, n, rc, valid = _cube(rng, nprng, mode, rng.choice(["int16", "int32"]), "yxt", "smallint")
        return {"args": [a, int(NODATA)], "outs": [], "size_class": f"n{n}/{rc}/{valid}/int"}
    a, n, rc, valid = _cube(rng, nprng, mode, rng.choice(["float32", "float64"]), "yxt")
    a = a.copy()
    a[a == NODATA] = np.nan
    return {"args": [a], "outs": [], "size_class": f"n{n}/{rc}/{valid}/float"}


def gen_autocorr_tyx(rng, nprng, mode):
    d = gen_autocorr(rng, nprng, mode)
    d["args"][0] = np.ascontiguousarray(np.moveaxis(d["args"][0], 2, 0))
    return d


def gen_do_mean(rng, nprng, mode):
    dtype = rng.choice(["float32", "float64", "int16", "int32"])
    if mode.startswith("boundary"):
        k = int(mode.split(":")[1])
        t = [1, 2, 5][k % 3]
        r, c = [(1, 1), (1, 4), (4, 1), (3, 3)][(k // 3) % 4]
        nz = [1, 2, r * c][(k // 12) % 3]
        zmode = ["all", "none", "one", "some"][(k // 36) % 4]
    else:
        t = rng.randint(1, 12)
        r, c = rng.randint(1, 6), rng.randint(1, 6)
        nz = rng.randint(1, 8)
        zmode = rng.choice(["all", "none", "one", "some"])
    nz = max(1, nz)
    pix = nprng.integers(0, 900, size=(t, r, c)).astype(dtype)
    pix[nprng.random(pix.shape) < 0.15] = np.dtype(dtype).type(NODATA)
    zdt = rng.choice(["uint8", "int16", "int32"])
    znd = 255 if zdt == "uint8" else -1
    zones = nprng.integers(0, nz, size=(r, c)).astype(zdt)
    if zmode == "none":
        zones[:] = znd
    elif zmode == "one":
        z0 = zones[0, 0]
        zones[:] = znd
        zones[0, 0] = z0
    elif zmode == "some":
        zones[nprng.random(zones.shape) < 0.3] = znd
    out_dtype = rng.choice([np.float32, np.float64])
    return {"args": [pix, zones, nz, NODATA, znd, out_dtype], "outs": [], "size_class": f"t{t}/{(r, c)}/z{nz}/{zmode}/{dtype}"}


OPS_PKG = "hdc.algo.ops"
STATS = "hdc.algo.ops.stats"

PROGRAMS = {
    # gufuncs
    "ws2dgu": Program("gufunc", _attr(OPS_PKG, "ws2dgu"), gen_ws2dgu, NB_SMOOTH),
    "ws2dpgu": Program("gufunc", _attr(OPS_PKG, "ws2dpgu"), gen_ws2dpgu, NB_SMOOTH),
    "ws2doptv": Program("gufunc", _attr(OPS_PKG, "ws2doptv"), gen_ws2doptv, NB_SMOOTH),
    "ws2doptvp": Program("gufunc", _attr(OPS_PKG, "ws2doptvp"), gen_ws2doptvp, NB_SMOOTH),
    "ws2doptvplc": Program("gufunc", _attr(OPS_PKG, "ws2doptvplc"), gen_ws2doptvplc, NB_SMOOTH),
    "ws2dwcv": Program("gufunc", _attr(OPS_PKG, "ws2dwcv"), gen_ws2dwcv, NB_SMOOTH),
    "ws2dwcvp": Program("gufunc", _attr(OPS_PKG, "ws2dwcvp"), gen_ws2dwcvp, NB_SMOOTH),
    "tinterpolate": Program("gufunc", _attr(OPS_PKG, "tinterpolate"), gen_tinterpolate, 432),
    "lroo": Program("gufunc", _attr(OPS_PKG, "lroo"), gen_lroo, NB_SMOOTH),
    "gammastd_grp": Program("gufunc", _attr(STATS, "gammastd_grp"), gen_gammastd_grp, NB_SMOOTH),
    "_mann_kendall_trend_gu_nd": Program("gufunc", _attr(STATS, "_mann_kendall_trend_gu_nd"), gen_mk_nd, NB_SMOOTH),
    "_mann_kendall_trend_gu": Program("gufunc", _attr(STATS, "_mann_kendall_trend_gu"), gen_mk, NB_SMOOTH),
    "mean_grp": Program("gufunc", _attr(STATS, "mean_grp"), gen_mean_grp, NB_SMOOTH),
    "rolling_sum": Program("gufunc", _attr(STATS, "rolling_sum"), gen_rolling_sum, NB_SMOOTH),
    # njit drivers
    "ws2d": Program("njit", _attr("hdc.algo.ops.ws2d", "ws2d"), gen_ws2d, 110),
    "_ws2doptvp": Program("njit", _attr("hdc.algo.ops.ws2doptvp", "_ws2doptvp"), gen__ws2doptvp, 110),
    "_ws2dwcvp": Program("njit", _attr("hdc.algo.ops.ws2dwcvp", "_ws2dwcvp"), gen__ws2dwcvp, 110),
    "ws2doptvplc_tyx": Program("njit", _attr("hdc.algo.ops.ws2doptvplc", "ws2doptvplc_tyx"), gen_ws2doptvplc_tyx, 308),
    "gammafit": Program("njit", _attr(STATS, "gammafit"), gen_gammafit, 110),
    "gammastd": Program("njit", _attr(STATS, "gammastd"), gen_gammastd, 110),
    "gammastd_yxt": Program("njit", _attr(STATS, "gammastd_yxt"), gen_gammastd_yxt, 308),
    "mk_score": Program("njit", _attr(STATS, "mk_score"), gen_mk1, 110),
    "mk_variance_s": Program("njit", _attr(STATS, "mk_variance_s"), gen_mk1, 110),
    "mk_z_score": Program("njit", _attr(STATS, "mk_z_score"), gen_mk_z, 6),
    "mk_p_value": Program("njit", _attr(STATS, "mk_p_value"), gen_mk_p, 6),
    "mk_sens_slope": Program("njit", _attr(STATS, "mk_sens_slope"), gen_mk1, 110),
    "mann_kendall_trend_1d": Program("njit", _attr(STATS, "mann_kendall_trend_1d"), gen_mk1, 110),
    "mann_kendall_trend_yxt": Program("njit", _attr(STATS, "mann_kendall_trend_yxt"), gen_mk_yxt, 308),
    "autocorr_1d_int": Program("njit", _attr("hdc.algo.ops.autocorr", "autocorr_1d_int"), gen_ac_int, 110),
    "autocorr_1d_float": Program("njit", _attr("hdc.algo.ops.autocorr", "autocorr_1d_float"), gen_ac_float, 110),
    "autocorr_1d": Program("njit", _attr("hdc.algo.ops.autocorr", "autocorr_1d"), gen_ac_1d, 110),
    "autocorr": Program("njit", _attr(OPS_PKG, "autocorr"), gen_autocorr, 308),
    "autocorr_tyx": Program("njit", _attr(OPS_PKG, "autocorr_tyx"), gen_autocorr_tyx, 308),
    "do_mean": Program("njit", _attr("hdc.algo.ops.zonal", "do_mean"), gen_do_mean, 144),
}

# partition for parallel compilation (each group is one process per perturb variant)
GROUPS = [
    ["ws2dwcv", "lroo", "mk_z_score", "mk_p_value"],
    ["ws2dwcvp", "mean_grp"],
    ["_ws2dwcvp", "rolling_sum", "gammafit"],
    ["ws2doptvplc_tyx", "ws2d"],
    ["ws2doptvp", "_ws2doptvp", "ws2dgu"],
    ["ws2doptv", "ws2doptvplc", "ws2dpgu"],
    ["gammastd_grp", "gammastd", "gammastd_yxt", "tinterpolate"],
    ["_mann_kendall_trend_gu_nd", "_mann_kendall_trend_gu", "mann_kendall_trend_1d", "mann_kendall_trend_yxt", "mk_score", "mk_variance_s", "mk_sens_slope"],
    ["autocorr_1d_int", "autocorr_1d_float", "autocorr_1d", "autocorr", "autocorr_tyx", "do_mean"],
]
assert sorted(sum(GROUPS, [])) == sorted(PROGRAMS), set(PROGRAMS) ^ set(sum(GROUPS, []))
