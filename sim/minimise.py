"""Schedule- and scenario-aware minimisation of a failing Workload-A run."""

from __future__ import annotations

import copy

import numpy as np

from . import scenarios as S

TIME_SLICEABLE = {"whits", "whitsvc", "whitswcv", "lroo", "croo", "autocorr", "mktrend", "anom"}


def slice_scn(scn, axis, keep):
    """Keep only indices ``keep`` along 'y' / 'x' / 'time' (content preserved)."""
    s = copy.deepcopy(scn)
    cube = S.j2arr(scn["cube"])
    ax = {"time": 0, "y": 1, "x": 2}[axis]
    cube = np.take(cube, keep, axis=ax)
    s["cube"] = S.arr2j(cube)
    if axis in ("y", "x"):
        for name, j in scn["secondary"].items():
            a = S.j2arr(j)
            s["secondary"][name] = S.arr2j(np.take(a, keep, axis=0 if axis == "y" else 1))
        s["chunks"][axis] = [len(keep)]
        if s.get("secondary_chunks"):
            for name in s["secondary_chunks"]:
                s["secondary_chunks"][name][axis] = [len(keep)]
    else:
        if s.get("time_chunks"):
            n = len(keep)
            s["time_chunks"] = [n // 2, n - n // 2] if n >= 2 else None
    if (scn.get("pair") or {}).get("share_cube"):
        # the second result hangs off the same cube: it is cut the same way
        s["pair"] = slice_scn(scn["pair"], axis, keep)
    return s


def minimise(scn, cfg, tape, execute, same, budget=200):
    """Greedy minimisation.  ``execute(scn, cfg, tape) -> RunResult``; ``same(rr) -> bool``.

    Returns (scn, cfg, tape, rr, executions_used)."""
    used = [0]
    best = {"scn": scn, "cfg": cfg, "tape": list(tape), "rr": None}

    def attempt(s, c, t):
        if used[0] >= budget:
            return False
        used[0] += 1
        try:
            rr = execute(s, c, t)
        except Exception:  # noqa: BLE001
            return False
        if same(rr):
            best.update(scn=s, cfg=c, tape=list(rr.tape), rr=rr)
            return True
        return False

    # 0. the case itself, replayed from its tape (sanity; also fills best['rr'])
    if not attempt(scn, cfg, tape):
        return scn, cfg, list(tape), None, used[0]

    # 1. faults off, one kind at a time
    for key, off in (("dup", False), ("stall", False), ("cold", False), ("preempt", False), ("optimize_graph", True)):
        if best["cfg"].get(key) != off:
            c = dict(best["cfg"])
            c[key] = off
            attempt(best["scn"], c, best["tape"])
    if best["cfg"].get("slow_steps"):
        c = dict(best["cfg"])
        c["slow_steps"] = 0
        attempt(best["scn"], c, best["tape"])
    # 2. one worker; all-zero schedule
    if best["cfg"]["workers"] != 1:
        c = dict(best["cfg"])
        c["workers"] = 1
        attempt(best["scn"], c, [])
    if best["tape"]:
        attempt(best["scn"], best["cfg"], [])
    # 3. merge chunks
    s = copy.deepcopy(best["scn"])
    T, Y, X = s["cube"]["shape"]
    if s["chunks"] != {"y": [Y], "x": [X]}:
        s["chunks"] = {"y": [Y], "x": [X]}
        if s.get("secondary_chunks"):
            s["secondary_chunks"] = None
        attempt(s, best["cfg"], best["tape"])
    # 4. slice the cube
    for axis in ("x", "y"):
        changed = True
        while changed:
            changed = False
            n = best["scn"]["cube"]["shape"][{"y": 1, "x": 2}[axis]]
            if n <= 1:
                break
            for lo, hi in ((0, n // 2), (n // 2, n)):
                keep = list(range(lo, hi))
                if keep and attempt(slice_scn(best["scn"], axis, keep), best["cfg"], best["tape"]):
                    changed = True
                    break
            if not changed:
                for i in range(n):
                    keep = [j for j in range(n) if j != i]
                    if attempt(slice_scn(best["scn"], axis, keep), best["cfg"], best["tape"]):
                        changed = True
                        break
    if best["scn"]["op"] in TIME_SLICEABLE:
        while True:
            n = best["scn"]["cube"]["shape"][0]
            if n <= 5:
                break
            keep = list(range(max(5, n // 2)))
            if not attempt(slice_scn(best["scn"], "time", keep), best["cfg"], best["tape"]):
                keep = list(range(n - 1))
                if not attempt(slice_scn(best["scn"], "time", keep), best["cfg"], best["tape"]):
                    break
    # 5. the tape itself: replace context switches by "stay"
    tape_ = list(best["tape"])
    # chop the tail first
    while tape_ and used[0] < budget:
        half = tape_[: len(tape_) // 2]
        if attempt(best["scn"], best["cfg"], half):
            tape_ = list(best["tape"])
            if len(tape_) > len(half):
                tape_ = half
        else:
            break
    tape_ = list(best["tape"])
    i = 0
    while i < len(tape_) and used[0] < budget:
        if tape_[i] != 0:
            t2 = list(tape_)
            t2[i] = 0
            if attempt(best["scn"], best["cfg"], t2):
                tape_ = list(best["tape"])
        i += 1
    return best["scn"], best["cfg"], best["tape"], best["rr"], used[0]
