"""Workload C / T -- the ``numba.prange`` kernel ``ws2doptvplc_tyx``.

T (real runtime): the compiled kernel under ``numba.set_num_threads(k)`` for k = 1..16 must
give byte-identical outputs; thorough tier repeats in fresh processes with
NUMBA_NUM_THREADS / NUMBA_THREADING_LAYER set.

C (interleavings): the kernel's own *source* is re-executed under a Python model of parfor
semantics: the body of ``for rr in numba.prange(nr)`` becomes a closure (names bound in the
body are private to an iteration, names bound before the loop are shared); K simulated
threads own drawn sets of rows and are pre-empted at every source line of the body; jitted
callees run as the real compiled functions.  Oracle: byte-identical to the one-thread,
row-order run of the same model.
"""

from __future__ import annotations

import ast
import hashlib
import importlib
import inspect
import json
import os
import random
import subprocess
import sys
import textwrap
import time
import types

import numpy as np

from . import driver
from .sched import Deadlock, HarnessInconclusive, RandomChooser, Sim, StepLimit, TapeChooser, preemptible

PROP = "C12"
KERNEL_MOD = "hdc.algo.ops.ws2doptvplc"
KERNEL = "ws2doptvplc_tyx"


# ---------------------------------------------------------------------------
# cubes
# ---------------------------------------------------------------------------


def make_cube(seed, nt, nr, nc, special=None, nodata=-3000):
    g = np.random.Generator(np.random.PCG64(seed))
    t = np.arange(nt).reshape(nt, 1, 1)
    base = 3000 + 2500 * np.sin(2 * np.pi * t / max(6, nt / 2) + g.random((1, nr, nc)) * 6)
    a = np.round(base + g.normal(0, 400, size=(nt, nr, nc))).astype("int16")
    a[g.random(a.shape) < 0.1] = nodata
    if special == "nodata-row" and nr > 0:
        a[:, int(g.integers(0, nr)), :] = nodata
    if special == "one-valid":
        a[:, 0, 0] = nodata
        a[0, 0, 0] = 1234
    if special == "dup-rows":
        # neighbouring pixels with exactly identical raw series (incl. their gaps) -- a plateau of
        # equal pixels is what real rasters are full of (water, desert, cloud masks); s52
        for r in range(1, nr):
            if g.random() < 0.5:
                a[:, r, :] = a[:, r - 1, :]
        for c in range(1, nc):
            if g.random() < 0.3:
                a[:, :, c] = a[:, :, c - 1]
    return a


def _sha(*arrs):
    h = hashlib.sha1()
    for a in arrs:
        h.update(str(a.dtype).encode())
        h.update(str(a.shape).encode())
        h.update(np.ascontiguousarray(a).tobytes())
    return h.hexdigest()


def get_kernel():
    mod = importlib.import_module(KERNEL_MOD)
    from . import proxies

    try:
        return proxies.original(KERNEL)
    except KeyError:
        return getattr(mod, KERNEL)


# ---------------------------------------------------------------------------
# T: real runtime
# ---------------------------------------------------------------------------

T_SHAPES_QUICK = [(12, 32, 3, None), (9, 1, 5, None), (9, 7, 1, None), (10, 33, 2, "nodata-row"), (6, 4, 4, "one-valid"), (24, 17, 4, None), (10, 24, 3, "dup-rows"), (8, 13, 4, "dup-rows")]


def real_thread_counts(seed, shapes, counts, p_values=(0.9,)):
    """Returns (violations, evaluations, samples)."""
    import numba

    k = get_kernel()
    out = []
    n = 0
    samples = []
    maxthreads = numba.config.NUMBA_NUM_THREADS
    for si, (nt, nr, nc, special) in enumerate(shapes):
        cube = make_cube((seed * 1000003 + si) % (2**32), nt, nr, nc, special)
        before = _sha(cube)
        for p in p_values:
            ref = None
            for c in counts:
                if c > maxthreads:
                    continue
                numba.set_num_threads(c)
                zz, lopts = k(cube, p, -3000)
                n += 1
                h = _sha(zz, lopts)
                if ref is None:
                    ref = (c, h)
                    if len(samples) < 3:
                        samples.append({"workload": "T", "cube_shape": [nt, nr, nc], "special": special, "p": p, "threads_reference": c, "sha1": h})
                elif h != ref[1]:
                    out.append(
                        (
                            "thread-count-differs",
                            f"ws2doptvplc_tyx on cube {nt}x{nr}x{nc} ({special}) p={p}: {c} threads differ from {ref[0]} thread(s)",
                            {"shape": [nt, nr, nc], "special": special, "seed": (seed * 1000003 + si) % (2**32), "p": p, "threads": c},
                        )
                    )
            if _sha(cube) != before:
                out.append(("input-modified", f"ws2doptvplc_tyx modified its input cube {nt}x{nr}x{nc}", {"shape": [nt, nr, nc], "special": special, "seed": (seed * 1000003 + si) % (2**32), "p": p, "threads": 0}))
    numba.set_num_threads(maxthreads)
    return out, n, samples


CHILD_SNIPPET = r"""
import sys, json
sys.path.insert(0, {verif!r}); sys.path.insert(0, {repo!r})
from sim import prange
import numpy as np
k = prange.get_kernel()
res = {{}}
for si, (nt, nr, nc, special) in enumerate({shapes!r}):
    cube = prange.make_cube(({seed} * 1000003 + si) % (2**32), nt, nr, nc, special)
    zz, lopts = k(cube, 0.9, -3000)
    res[str(si)] = prange._sha(zz, lopts)
import numba
print("RESULT " + json.dumps({{"hashes": res, "layer": numba.threading_layer(), "threads": numba.get_num_threads()}}))
"""


def fresh_process_matrix(seed, shapes):
    """NUMBA_NUM_THREADS x NUMBA_THREADING_LAYER in fresh interpreters (never forked after OpenMP started)."""
    combos = [(n, layer) for layer in ("omp", "workqueue") for n in (1, 2, 7, 16)]
    procs = []
    code = CHILD_SNIPPET.format(verif=driver.VERIF, repo=driver.repo_dir(), shapes=shapes, seed=seed)
    for n, layer in combos:
        env = dict(os.environ)
        env["NUMBA_NUM_THREADS"] = str(n)
        env["NUMBA_THREADING_LAYER"] = layer
        env["PYTHONHASHSEED"] = "0"
        procs.append(((n, layer), subprocess.Popen([sys.executable, "-c", code], env=env, stdout=subprocess.PIPE, stderr=subprocess.PIPE, text=True)))
    results = {}
    errors = []
    for (n, layer), pr in procs:
        try:
            so, se = pr.communicate(timeout=900)
        except subprocess.TimeoutExpired:
            pr.kill()
            errors.append(f"child {n}/{layer} timed out")
            continue
        line = [l for l in so.splitlines() if l.startswith("RESULT ")]
        if pr.returncode != 0 or not line:
            if "threading layer" in se.lower() or "No threading layer" in se:
                errors.append(f"child {n}/{layer}: layer unavailable")
            else:
                errors.append(f"child {n}/{layer} failed rc={pr.returncode}: {se[-400:]}")
            continue
        results[(n, layer)] = json.loads(line[0][7:])
    viol = []
    evals = 0
    ref = None
    for key, r in sorted(results.items()):
        evals += len(r["hashes"])
        if ref is None:
            ref = (key, r["hashes"])
            continue
        for si, h in r["hashes"].items():
            if ref[1].get(si) != h:
                viol.append(
                    (
                        "thread-count-differs",
                        f"fresh process NUMBA_NUM_THREADS={key[0]} layer={r['layer']} differs from {ref[0]} on cube #{si} {shapes[int(si)]}",
                        {"fresh": True, "threads": key[0], "layer": key[1], "cube_index": int(si), "shapes": shapes, "seed": seed},
                    )
                )
    return viol, evals, errors, {f"{k[0]}/{k[1]}": v["layer"] for k, v in results.items()}


# ---------------------------------------------------------------------------
# C: Python model of the parfor
# ---------------------------------------------------------------------------


class ModelInapplicable(Exception):
    pass


class _NpShim:
    """numpy with nopython's ``np.round(a, decimals, out)`` (unsafe cast into an integer out)."""

    def __init__(self):
        self.__dict__["_np"] = np

    def __getattr__(self, name):
        return getattr(self._np, name)

    def round(self, a, decimals=0, out=None):
        if out is None:
            return self._np.round(a, decimals)
        r = self._np.round(a, decimals)
        out[...] = r.astype(out.dtype) if hasattr(r, "astype") else r
        return out

    round_ = round
    around = round


_model_cache = {}


def build_model():
    """Compile the transformed source once per process.  Returns (fn, body_code, info)."""
    if "model" in _model_cache:
        return _model_cache["model"]
    kernel = get_kernel()
    f = getattr(kernel, "__wrapped__", None)
    if f is None or not isinstance(f, types.FunctionType):
        raise ModelInapplicable("kernel has no __wrapped__ python source")
    try:
        src = textwrap.dedent(inspect.getsource(f))
    except (OSError, TypeError) as e:
        raise ModelInapplicable(f"no source: {e}")
    tree = ast.parse(src)
    fdef = tree.body[0]
    if not isinstance(fdef, ast.FunctionDef):
        raise ModelInapplicable("not a function definition")
    fdef.decorator_list = []
    loop_idx = None
    for i, st in enumerate(fdef.body):
        if isinstance(st, ast.For) and isinstance(st.iter, ast.Call):
            fn = st.iter.func
            name = fn.attr if isinstance(fn, ast.Attribute) else getattr(fn, "id", None)
            if name == "prange":
                if loop_idx is not None:
                    raise ModelInapplicable("more than one top-level prange loop")
                loop_idx = i
    if loop_idx is None:
        raise ModelInapplicable("no top-level prange loop in the kernel source")
    loop = fdef.body[loop_idx]
    if not isinstance(loop.target, ast.Name) or loop.orelse:
        raise ModelInapplicable("prange loop shape not supported")
    for node in ast.walk(loop):
        if isinstance(node, ast.Call):
            fn = node.func
            nm = fn.attr if isinstance(fn, ast.Attribute) else getattr(fn, "id", None)
            if nm == "prange" and node is not loop.iter:
                raise ModelInapplicable("nested prange")
        if isinstance(node, (ast.Return, ast.Break)) and node in loop.body:
            raise ModelInapplicable("return/break directly in prange body")

    def bound_names(stmts):
        names = set()
        for st in stmts:
            for node in ast.walk(st):
                if isinstance(node, ast.Name) and isinstance(node.ctx, (ast.Store, ast.Del)):
                    names.add(node.id)
                elif isinstance(node, ast.AugAssign) and isinstance(node.target, ast.Name):
                    names.add(node.target.id)
        return names

    pre = fdef.body[:loop_idx]
    pre_names = bound_names(pre) | {a.arg for a in fdef.args.args}
    body_names = bound_names(loop.body)
    carried = sorted((pre_names & body_names) - {loop.target.id})
    if carried:
        raise ModelInapplicable(f"names bound both before and inside the prange body (reduction / carried scalar): {carried}")
    body_fn = ast.FunctionDef(
        name="__prange_body",
        args=ast.arguments(posonlyargs=[], args=[ast.arg(arg=loop.target.id)], kwonlyargs=[], kw_defaults=[], defaults=[]),
        body=loop.body,
        decorator_list=[],
        returns=None,
        type_params=[],
    )
    call = ast.Expr(
        value=ast.Call(
            func=ast.Name(id="__prange_runner", ctx=ast.Load()),
            args=[ast.Name(id="__prange_body", ctx=ast.Load())] + list(loop.iter.args),
            keywords=[],
        )
    )
    fdef.body = pre + [body_fn, call] + fdef.body[loop_idx + 1 :]
    fdef.args.args.append(ast.arg(arg="__prange_runner"))
    ast.fix_missing_locations(tree)
    code = compile(tree, f"<prange-model:{KERNEL}>", "exec")
    mod = importlib.import_module(KERNEL_MOD)
    ns = dict(vars(mod))
    # shims the interpreter needs and nopython does not
    import numba.core.types as nbt

    for nm, val in list(ns.items()):
        if isinstance(val, nbt.Type):
            try:
                ns[nm] = np.dtype(str(val)).type
            except TypeError:
                pass
    ns["np"] = _NpShim()
    exec(code, ns)
    fn = ns[fdef.name]
    body_code = None
    for k in fn.__code__.co_consts:
        if isinstance(k, types.CodeType) and k.co_name == "__prange_body":
            body_code = k
    if body_code is None:
        raise ModelInapplicable("body code object not found")
    preemptible(body_code)
    info = {"private": sorted(body_names), "shared_written_before_loop": sorted(pre_names)}
    _model_cache["model"] = (fn, body_code, info)
    return _model_cache["model"]


def gen_C(key):
    rng = random.Random(key)
    nt = rng.randint(5, 10)
    nr = rng.randint(2, 6)
    nc = rng.randint(1, 3)
    k = rng.randint(2, min(8, nr)) if nr >= 2 else 1
    rows = list(range(nr))
    if rng.random() < 0.5:
        # numba-style static schedule: contiguous blocks
        per = -(-nr // k)
        assign = [rows[i * per : (i + 1) * per] for i in range(k)]
    else:
        assign = [[] for _ in range(k)]
        for r in rows:
            assign[rng.randrange(k)].append(r)
        for a in assign:
            rng.shuffle(a)
    assign = [a for a in assign if a]
    return {
        "cube_seed": rng.randrange(2**32),
        "shape": [nt, nr, nc],
        "special": rng.choice([None, None, "nodata-row", "one-valid", "dup-rows"]),
        "p": rng.choice([0.5, 0.9, 0.95]),
        "assign": assign,
        "p_switch": rng.choice([0.02, 0.1, 0.3, 1.0]),
        "sched_seed": rng.randrange(2**32),
    }


def exec_C(case, tape=None):
    from .runner import RunResult, _exc_str

    rr = RunResult()
    rr.cfg = {}
    fn, body_code, info = build_model()
    nt, nr, nc = case["shape"]
    cube = make_cube(case["cube_seed"], nt, nr, nc, case["special"])
    before = _sha(cube)

    def seq_runner(body, n):
        for r in range(n):
            body(r)

    try:
        ref = fn(cube.copy(), case["p"], -3000, seq_runner)
    except Exception as e:  # noqa: BLE001
        raise ModelInapplicable(f"sequential model run raised {_exc_str(e)}")
    ref_sha = _sha(*ref)

    chooser = TapeChooser(tape) if tape is not None else RandomChooser(random.Random(case["sched_seed"]), case["p_switch"])
    sim = Sim(chooser, max_steps=200000, preempt=True, stall=False, log_lines=False)
    active = [0]

    def par_runner(body, n):
        assign = [[r for r in a if r < n] for a in case["assign"]]

        def mk(rows):
            def t():
                sim.yield_point(("prange-thread-start",))
                for r in rows:
                    active[0] += 1
                    if active[0] > 1:
                        sim.probe("prange_iterations_interleaved")
                    try:
                        body(r)
                    finally:
                        active[0] -= 1
                    sim.yield_point(("iteration-done", r))

            return t

        ths = [sim.spawn(mk(rows), name="p") for rows in assign if rows]
        sim.join(ths)
        for t in ths:
            if t.exc is not None:
                raise t.exc

    got = None
    try:
        got = sim.run(lambda: fn(cube, case["p"], -3000, par_runner))
    except StepLimit:
        rr.outcome = "step-cap"
    except HarnessInconclusive as e:
        rr.harness = _exc_str(e)
    except Deadlock as e:
        rr.harness = "deadlock in prange model: " + str(e)
    except Exception as e:  # noqa: BLE001
        rr.violations.append(("prange-interleaving-raises", f"model run under interleaving raised {_exc_str(e)} (sequential run did not)"))
    rr.tape = sim.tape
    rr.counters = dict(sim.counters)
    rr.probes = dict(sim.probes)
    rr.steps = sim.steps
    rr.digest = sim.digest()
    if rr.harness:
        rr.outcome = "harness"
        return rr
    if rr.outcome == "step-cap":
        return rr
    if got is not None and _sha(*got) != ref_sha:
        nbad = int(np.sum(got[0] != ref[0])) + int(np.sum(got[1] != ref[1]))
        rr.violations.append(
            ("prange-interleaving-differs", f"prange model: interleaved run differs from sequential in {nbad} cells (cube {nt}x{nr}x{nc}, rows per thread {case['assign']})")
        )
    if _sha(cube) != before:
        rr.violations.append(("input-modified", "prange model: input cube modified"))
    return rr


def minimise_C(case, tape, vclass, budget):
    used = [0]
    best = {"case": case, "tape": list(tape), "rr": None}

    def attempt(c, t):
        if used[0] >= budget:
            return False
        used[0] += 1
        try:
            rr = exec_C(c, tape=t)
        except Exception:  # noqa: BLE001
            return False
        if any(v[0] == vclass for v in rr.violations):
            best.update(case=c, tape=list(rr.tape), rr=rr)
            return True
        return False

    if not attempt(case, tape):
        return None
    # fewer threads
    changed = True
    while changed and len(best["case"]["assign"]) > 2:
        changed = False
        for i in range(len(best["case"]["assign"])):
            c = json.loads(json.dumps(best["case"]))
            rows = c["assign"].pop(i)
            c["assign"][0].extend(rows)
            if attempt(c, best["tape"]):
                changed = True
                break
    t = list(best["tape"])
    # chop tail
    while t and used[0] < budget:
        half = t[: len(t) // 2]
        if attempt(best["case"], half):
            t = list(best["tape"])[: len(half)]
            best["tape"] = t
        else:
            break
    t = list(best["tape"])
    i = 0
    while i < len(t) and used[0] < budget:
        if t[i] != 0:
            t2 = list(t)
            t2[i] = 0
            if attempt(best["case"], t2):
                t = list(best["tape"])
        i += 1
    return None, best["case"], best["tape"], best["rr"], used[0]


# ---------------------------------------------------------------------------
# job + replay
# ---------------------------------------------------------------------------


def job_prange(job):
    from . import runner
    from .c12impl import Agg

    runner.install_seams()
    agg = Agg()
    seed = job["seed"]
    known = driver.load_known()

    def add_violation(workload, vclass, msg, payload_extra, tape=None, digest=""):
        agg.bump("violation_counts", f"{KERNEL}:{vclass}")
        kf = driver.match_known(known, PROP, vclass, {"op": KERNEL, "class": vclass})
        if kf is not None:
            agg.bump("known_hits", kf["id"])
            return
        tag = f"{KERNEL}:{vclass}"
        if sum(1 for v in agg.d["violations"] if v["tag"] == tag) >= 2:
            return
        p = {"property": PROP, "workload": workload, "tag": tag, "key": f"{seed}/{workload}", "violation": {"class": vclass, "message": msg}, "tape": tape or [], "digest": digest}
        p.update(payload_extra)
        agg.d["violations"].append(p)

    # ---- T -----------------------------------------------------------------
    t0 = time.monotonic()
    if job.get("T"):
        try:
            counts = [1, 2, 4, 8, 16] if job["T"] == "quick" else list(range(1, 17))
            shapes = list(T_SHAPES_QUICK)
            if job["T"] != "quick":
                rng = random.Random(f"{seed}/T")
                for _ in range(24):
                    shapes.append((rng.randint(5, 40), rng.randint(1, 48), rng.randint(1, 6), rng.choice([None, None, "nodata-row", "one-valid", "dup-rows"])))
            pv = (0.9,) if job["T"] == "quick" else (0.5, 0.9, 0.95)
            viol, n, samples = real_thread_counts(seed, shapes, counts, pv)
            agg.d["runs"] += n
            agg.bump("runs_by_workload", "T", n)
            agg.d["samples"].extend(samples[:1])
            agg.bump("probes", "real_thread_counts_exercised", len(counts))
            for vclass, msg, detail in viol:
                add_violation("T", vclass, msg, {"detail": detail})
            if job["T"] != "quick":
                viol, n, errs, layers = fresh_process_matrix(seed, T_SHAPES_QUICK)
                agg.d["runs"] += n
                agg.bump("runs_by_workload", "T-fresh", n)
                agg.bump("probes", "fresh_process_layers:" + ",".join(sorted(set(layers.values()))), 1)
                for e in errs:
                    if "unavailable" in e:
                        agg.bump("probes", "threading_layer_unavailable", 1)
                    else:
                        agg.d["harness"].append(e)
                for vclass, msg, detail in viol:
                    add_violation("T", vclass, msg, {"detail": detail})
        except Exception as e:  # noqa: BLE001
            import traceback

            agg.d["harness"].append(f"prange T: {type(e).__name__}: {e}\n{traceback.format_exc()[-1200:]}")
    agg.bump("wall", "T", time.monotonic() - t0)
    # ---- C -----------------------------------------------------------------
    t1 = time.monotonic()
    if job.get("budget_C"):
        sw = driver.Stopwatch(job["budget_C"])
        try:
            build_model()
            i = 0
            while not sw.expired() and i < job.get("max_runs", 10**9):
                key = f"{seed}/C/{i}"
                i += 1
                case = gen_C(key)
                rr = exec_C(case)
                agg.d["runs"] += 1
                agg.bump("runs_by_workload", "C")
                agg.d["steps"] += rr.steps
                agg.d["sim_threads"] += rr.counters.get("threads", 0)
                if rr.harness:
                    agg.d["harness"].append(f"{key}: {rr.harness}")
                    continue
                if job.get("dump"):
                    agg.d["digest_map"][key] = rr.digest
                for k, v in rr.probes.items():
                    agg.bump("probes", k, v)
                if rr.counters.get("line_yields"):
                    agg.bump("faults_fired", "preempt", rr.counters["line_yields"])
                if rr.counters.get("switches", 0) >= 1:
                    agg.d["digests"].add(rr.digest[:16])
                if not any(s["workload"] == "C" for s in agg.d["samples"]):
                    agg.d["samples"].append({"workload": "C", "key": key, "case": case, "tape_head": rr.tape[:40], "tape_len": len(rr.tape), "steps": rr.steps, "digest": rr.digest})
                for vclass, msg in rr.violations:
                    m = minimise_C(case, rr.tape, vclass, 80)
                    if m is not None and m[3] is not None:
                        _, mcase, mtape, mrr, used = m
                        agg.d["minimise_execs"] += used
                        add_violation("C", vclass, [v[1] for v in mrr.violations if v[0] == vclass][0], {"case": mcase, "minimised": True}, tape=mtape, digest=mrr.digest)
                    else:
                        add_violation("C", vclass, msg, {"case": case, "minimised": False}, tape=rr.tape, digest=rr.digest)
        except ModelInapplicable as e:
            agg.bump("probes", "prange-model-inapplicable", 1)
            agg.d["samples"].append({"workload": "C", "note": f"prange-model-inapplicable: {e}"})
        except Exception as e:  # noqa: BLE001
            import traceback

            agg.d["harness"].append(f"prange C: {type(e).__name__}: {e}\n{traceback.format_exc()[-1200:]}")
    agg.bump("wall", "C", time.monotonic() - t1)
    out = agg.export()
    out["name"] = job["name"]
    return out


def replay(payload):
    from .runner import RunResult

    if payload["workload"] == "C":
        return exec_C(payload["case"], tape=payload["tape"])
    rr = RunResult()
    d = payload["detail"]
    if d.get("fresh"):
        viol, _, errs, _ = fresh_process_matrix(d["seed"], [tuple(s) for s in d["shapes"]])
        rr.violations = [(v[0], v[1]) for v in viol]
        return rr
    import numba

    k = get_kernel()
    cube = make_cube(d["seed"], *d["shape"], d["special"])
    numba.set_num_threads(1)
    a = _sha(*k(cube, d["p"], -3000))
    numba.set_num_threads(max(1, d["threads"]))
    b = _sha(*k(cube, d["p"], -3000))
    if a != b:
        rr.violations.append(("thread-count-differs", f"{d['threads']} threads differ from 1"))
    return rr
