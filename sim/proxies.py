"""Transparent, re-targetable proxies in front of the lazily compiled kernels.

The accessors look their kernels up at call time (``ops.ws2dgu``,
``from .ops.stats import mean_grp`` ...).  We put a plain forwarding function at each
of those names.  By default it forwards to the module's own wrapper (warm path:
behaviour identical).  For a *cold* run the target is replaced -- after the dask graph
has been built, because dask probes the function once at build time to infer the
output meta -- by a **fresh wrapper built with the current tree's ``lazycompile``**
around a slow-compile stub, so the first tasks of the graph race through an
un-primed wrapper on the simulated workers.
"""

from __future__ import annotations

import importlib
import sys
import types

from .scenarios import LAZY_KERNELS
from .sched import current_sim, preemptible

_TARGETS = {}
_ORIG = {}
_installed = False


def _make_proxy(name):
    def proxy(*args, **kwargs):
        return _TARGETS[name](*args, **kwargs)

    proxy.__name__ = proxy.__qualname__ = f"proxy_{name}"
    proxy.__module__ = __name__
    return proxy


def install():
    global _installed
    if _installed:
        return
    this = sys.modules[__name__]
    for name, (modname, attr) in LAZY_KERNELS.items():
        mod = importlib.import_module(modname)
        orig = getattr(mod, attr)
        _ORIG[name] = orig
        _TARGETS[name] = orig
        px = _make_proxy(name)
        setattr(this, px.__name__, px)
        setattr(mod, attr, px)
    _installed = True
    register_wrapper_preemption()


def original(name):
    return _ORIG[name]


def lazycompile_codes():
    """Every code object nested in the current tree's ``lazycompile`` (wrapper and helpers)."""
    helper = importlib.import_module("hdc.algo.ops._helper")
    codes = []

    def walk(co):
        codes.append(co)
        for k in co.co_consts:
            if isinstance(k, types.CodeType):
                walk(k)

    for v in vars(helper).values():
        if isinstance(v, types.FunctionType) and v.__module__ == helper.__name__:
            walk(v.__code__)
        elif isinstance(v, type) and v.__module__ == helper.__name__:
            for m in vars(v).values():
                if isinstance(m, types.FunctionType):
                    walk(m.__code__)
    return codes


def register_wrapper_preemption():
    preemptible(*lazycompile_codes())
    # a wrapper object may have been produced by code that is not nested in _helper
    for o in _ORIG.values():
        if isinstance(o, types.FunctionType):
            preemptible(o.__code__)


class ColdStats:
    def __init__(self):
        self.compiles = 0
        self.concurrent_compiles = 0
        self.inside = 0


def make_cold(name, slow_steps, stats):
    """Fresh wrapper: current tree's lazycompile( slow stub )( undecorated kernel )."""
    helper = importlib.import_module("hdc.algo.ops._helper")
    orig = _ORIG[name]
    f = getattr(orig, "__wrapped__", orig)

    def stub_decorator(func):
        sim = current_sim()
        stats.compiles += 1
        stats.inside += 1
        if stats.inside > 1:
            stats.concurrent_compiles += 1
            if sim is not None:
                sim.probe("two_threads_in_compile_step")
        if sim is not None:
            for i in range(slow_steps):
                sim.yield_point(("slow-compile", name, i))
        stats.inside -= 1

        # like a real decorator, every compilation yields a distinct callable object
        def compiled(*args, **kwargs):
            return orig(*args, **kwargs)

        return compiled

    fresh = helper.lazycompile(stub_decorator)(f)
    if isinstance(fresh, types.FunctionType):
        preemptible(fresh.__code__)
    return fresh


def set_target(name, fn):
    _TARGETS[name] = fn


def reset_targets():
    for name, o in _ORIG.items():
        _TARGETS[name] = o
