"""Workload D -- real-decorator races (low volume, not simulated, sound).

In a process where the kernel has never been compiled, N real threads released by a
barrier make the *first* call to the real module-level lazy-compile wrapper (real numba
compile).  All must return, and return what a later sequential call returns.  This cannot
alarm on a correct tree (pure code), and it exercises the real ``guvectorize``/``njit``
decorators that the simulated races replace by a stub.
"""

from __future__ import annotations

import random
import threading
import time
import warnings

from . import driver
from . import scenarios as S

PROP = "C12"

KERNEL_OP = {
    "ws2dgu": "whits",
    "ws2dpgu": "whits",
    "ws2doptv": "whitsvc",
    "ws2doptvp": "whitsvc",
    "ws2doptvplc": "whitsvc",
    "ws2dwcv": "whitswcv",
    "ws2dwcvp": "whitswcv",
    "tinterpolate": "whitint",
    "lroo": "lroo",
    "autocorr": "autocorr",
    "autocorr_tyx": "autocorr",
    "gammastd_grp": "spi",
    "_mann_kendall_trend_gu": "mktrend",
    "_mann_kendall_trend_gu_nd": "mktrend",
    "mean_grp": "mean_grp",
    "rolling_sum": "rolling_sum",
    "do_mean": "zonal_mean",
}


# njit kernels that are not behind lazycompile but are still first compiled on first use
NJIT_FIRST_USE = {"gammastd_yxt": ("spi", lambda scn: scn["params"].get("groups") is None)}
KERNEL_OP.update({k: v[0] for k, v in NJIT_FIRST_USE.items()})


def find_scenario(seed, kernel):
    """Deterministic in (seed, kernel) alone: the racing process and the fresh reference process
    must pick the very same scenario whatever tier-dependent generator settings are active."""
    op = KERNEL_OP[kernel]
    saved = S.BIG_FRACTION
    S.BIG_FRACTION = 0.0
    try:
        return _find_scenario(seed, kernel, op)
    finally:
        S.BIG_FRACTION = saved


def _find_scenario(seed, kernel, op):
    for i in range(500):
        scn = S.gen_scenario(random.Random(f"{seed}/D/{kernel}/{i}"), ops=[op])
        if kernel in NJIT_FIRST_USE:
            if NJIT_FIRST_USE[kernel][1](scn):
                return scn
        elif kernel in S.kernels_of(scn):
            return scn
    raise RuntimeError(f"no scenario reaches {kernel}")


def stall_numba_extension_init(seconds, gate=None):
    """Fault: hdc-algo's numba extension initialiser (registered as a ``numba_extensions`` entry
    point and run by numba on the first compilation in a process) is slow / stalled.

    ``gate``: optional callable returning True when the stalled initialiser may go on (used for
    njit first-use races: the initialising thread is held until the other racing threads have
    finished their own first call, or ``seconds`` have passed).  Sound: a slow initialiser cannot
    change results on a correct tree.  Returns an undo function."""
    import importlib

    try:
        mod = importlib.import_module("hdc.algo.vendor.numba_scipy")
        orig = mod._init_extension
    except Exception:  # noqa: BLE001
        return lambda: None

    def slow_init(*a, **k):
        if gate is None:
            time.sleep(seconds)
        else:
            t0 = time.monotonic()
            while not gate() and time.monotonic() - t0 < seconds:
                time.sleep(0.02)
        r = orig(*a, **k)
        return r

    mod._init_extension = slow_init
    return lambda: setattr(mod, "_init_extension", orig)


def norm_digest(norm):
    import hashlib

    import numpy as np

    if isinstance(norm, str):
        return norm
    h = hashlib.sha1()
    for k in sorted(norm):
        v = norm[k]
        h.update(repr((k, v["dims"], v["dtype"], v["shape"])).encode())
        h.update(np.ascontiguousarray(v["values"]).tobytes() if v["values"].dtype != object else repr(v["values"].tolist()).encode())
        for cn in sorted(v["coords"]):
            cd, cv = v["coords"][cn]
            h.update(repr((cn, cd, str(cv.dtype))).encode())
            h.update(np.ascontiguousarray(cv).tobytes() if cv.dtype != object else repr(cv.tolist()).encode())
    return h.hexdigest()


def fresh_reference_process(kernel, seed):
    """The same first call, single-threaded, in a fresh interpreter (started alongside the race)."""
    import os
    import subprocess
    import sys

    env = dict(os.environ)
    env["PYTHONHASHSEED"] = "0"
    code = (
        "import sys; sys.path.insert(0, %r); sys.path.insert(0, %r)\n"
        "from sim import runner, realrace\n"
        "runner.install_seams()\n"
        "print('REF ' + realrace.single_call_digest(%r, %d))\n" % (driver.VERIF, driver.repo_dir(), kernel, seed)
    )
    return subprocess.Popen([sys.executable, "-c", code], env=env, stdout=subprocess.PIPE, stderr=subprocess.PIPE, text=True)


def single_call_digest(kernel, seed):
    scn = find_scenario(seed, kernel)
    cube = S.build_cube(scn)
    try:
        return norm_digest(S.normalise(S.apply_op(scn, cube, lazy=False)))
    except Exception as e:  # noqa: BLE001
        return "RAISES"


def race(kernel, seed, n_threads, fresh_ref=True):
    """Returns list of (class, message)."""
    viol = []
    refproc = fresh_reference_process(kernel, seed) if (fresh_ref and kernel != "ws2doptvplc_tyx") else None
    if kernel == "ws2doptvplc_tyx":
        from . import prange

        k = prange.get_kernel()
        cube = prange.make_cube(seed % (2**32), 9, 5, 3)

        def call():
            zz, lo = k(cube, 0.9, -3000)
            return prange._sha(zz, lo)

        def same(a, b):
            return [] if a == b else [("values", "outputs differ")]

    else:
        scn = find_scenario(seed, kernel)
        cube = S.build_cube(scn)

        def call():
            if True:  # warnings are silenced process-wide (catch_warnings is not thread-safe)
                return S.normalise(S.apply_op(scn, cube, lazy=False))

        same = S.compare

    barrier = threading.Barrier(n_threads)
    results = [None] * n_threads
    if kernel in NJIT_FIRST_USE:
        # njit dispatchers run numba's extension initialisation outside the compiler lock: hold the
        # initialising thread until every other racing thread has finished its first call
        undo_stall = stall_numba_extension_init(60.0, gate=lambda: sum(r is not None for r in results) >= n_threads - 1)
    else:
        undo_stall = stall_numba_extension_init(0.25)

    def t(i):
        barrier.wait()
        try:
            results[i] = (call(), None)
        except Exception as e:  # noqa: BLE001
            results[i] = (None, e)

    ths = [threading.Thread(target=t, args=(i,), daemon=True) for i in range(n_threads)]
    for th in ths:
        th.start()
    for th in ths:
        th.join(180)
        if th.is_alive():
            viol.append(("first-use-race-hangs", f"{kernel}: a thread did not return from the first call within 180 s"))
            return viol
    undo_stall()
    try:
        ref = call()
    except Exception as e:  # noqa: BLE001
        ref = None
        ref_exc = e
    else:
        ref_exc = None
    # oracle 2: a never-raced, single-threaded first use in a fresh interpreter
    if refproc is not None:
        try:
            so, se = refproc.communicate(timeout=900)
            line = [l for l in so.splitlines() if l.startswith("REF ")]
            fresh = line[0][4:] if line else None
        except Exception:  # noqa: BLE001
            refproc.kill()
            fresh = None
        if fresh is not None:
            for i, (res, exc) in enumerate(results):
                got = "RAISES" if exc is not None else norm_digest(res)
                if got != fresh:
                    what = f"raised {type(exc).__name__}: {str(exc)[:160]}" if exc is not None else "returned a different result"
                    viol.append(("first-use-race-raises" if exc is not None else "first-use-race-differs", f"{kernel}: racing thread {i} {what}, while a single-threaded first call in a fresh process {'raises' if fresh == 'RAISES' else 'succeeds'}"))
                    break
    for i, (res, exc) in enumerate(results):
        if ref_exc is not None:
            if exc is None:
                viol.append(("first-use-race-differs", f"{kernel}: sequential call raises {type(ref_exc).__name__} but racing thread {i} returned"))
            continue
        if exc is not None:
            viol.append(("first-use-race-raises", f"{kernel}: racing thread {i} raised {type(exc).__name__}: {str(exc)[:200]}"))
            continue
        for cls, msg in same(ref, res):
            viol.append(("first-use-race-differs", f"{kernel}: thread {i}: {cls}: {msg}"))
    return viol


def job_realrace(job):
    from . import runner
    from .c12impl import Agg

    runner.install_seams()
    agg = Agg()
    known = driver.load_known()
    kernel, seed = job["kernel"], job["seed"]
    n = random.Random(f"{seed}/D/{kernel}").choice([2, 3, 4, 8])
    t0 = time.monotonic()
    try:
        viol = race(kernel, seed, n)
        agg.d["runs"] += 1
        agg.bump("runs_by_workload", "D")
        agg.bump("probes", "real_decorator_first_use_races", 1)
        seen = set()
        for vclass, msg in viol:
            if vclass in seen:
                continue
            seen.add(vclass)
            agg.bump("violation_counts", f"{kernel}:{vclass}")
            if driver.match_known(known, PROP, vclass, {"op": kernel, "class": vclass}):
                continue
            agg.d["violations"].append(
                {"property": PROP, "workload": "D", "tag": f"{kernel}:{vclass}", "key": f"{seed}/D/{kernel}", "violation": {"class": vclass, "message": msg}, "kernel": kernel, "seed": seed, "threads": n, "tape": [], "digest": ""}
            )
    except Exception as e:  # noqa: BLE001
        import traceback

        agg.d["harness"].append(f"realrace {kernel}: {type(e).__name__}: {e}\n{traceback.format_exc()[-1200:]}")
    agg.bump("wall", "D", time.monotonic() - t0)
    out = agg.export()
    out["name"] = job["name"]
    return out


def replay(payload):
    """Real threads are not schedulable: the replay re-runs the race in this (fresh) process."""
    from .runner import RunResult

    rr = RunResult()
    rr.violations = race(payload["kernel"], payload["seed"], payload["threads"])
    return rr
