"""One simulated run of Workload A (dask graph on the simulated executor) and helpers."""

from __future__ import annotations

import hashlib
import random
import traceback
import uuid
import warnings

import numpy as np

from . import daskexec, proxies, scenarios as S
from .sched import (
    Deadlock,
    HarnessInconclusive,
    RandomChooser,
    Sim,
    SimError,
    StepLimit,
    TapeChooser,
)

_uuid_rng = random.Random(0)
_real_uuid4 = uuid.uuid4


def _seeded_uuid4():
    return uuid.UUID(int=_uuid_rng.getrandbits(128), version=4)


def install_seams():
    """Process-wide seams: dask queue wait, uuid, kernel proxies, lock factory."""
    from .sched import install_lock_seam

    install_lock_seam()
    # one process-wide filter: warnings.catch_warnings() mutates global state and is not
    # thread-safe, so it must never be entered from simulated threads
    warnings.simplefilter("ignore")
    import hdc.algo  # noqa: F401  (after the lock seam so hdc-created locks are simulator-aware)

    daskexec.install()
    # any *implicit* dask compute (e.g. reading the values of a dask-backed auxiliary coordinate)
    # must not start dask's real thread pool inside a simulated thread
    import dask

    dask.config.set(scheduler="synchronous")
    uuid.uuid4 = _seeded_uuid4
    proxies.install()
    from . import workload_b

    workload_b._register()  # Python-level hdc code is pre-emptible inside dask tasks as well


def reseed_uuid(key):
    _uuid_rng.seed(key)


FAULT_KINDS = ["reorder", "stall", "preempt", "slow-compile", "dup-exec", "shared-input"]


def gen_config(rng, cold_allowed=True):
    workers = rng.choice([1, 2, 2, 3, 4, 4, 5, 8, 16])
    cfg = {
        "workers": workers,
        "p_switch": rng.choice([0.1, 0.3, 0.5, 0.8, 1.0]),
        "stall": rng.random() < 0.5,
        "dup": rng.random() < 0.5,
        "preempt": rng.random() < 0.75,
        "optimize_graph": rng.random() < 0.7,
        "cold": cold_allowed and rng.random() < 0.5,
        "slow_steps": rng.choice([0, 1, 3, 8]),
    }
    return cfg


class RunResult:
    __slots__ = (
        "scn",
        "cfg",
        "tape",
        "digest",
        "violations",
        "harness",
        "counters",
        "probes",
        "steps",
        "outcome",
        "ntasks",
        "seedkey",
    )

    def __init__(self):
        self.violations = []  # list of (class, message)
        self.harness = None
        self.counters = {}
        self.probes = {}
        self.steps = 0
        self.outcome = "ok"
        self.ntasks = 0
        self.tape = []
        self.digest = ""


def _exc_str(e):
    return f"{type(e).__name__}: {str(e)[:300]}"


def _has_hdc_or_kernel_frame(e):
    tb = e.__traceback__
    while tb is not None:
        fn = tb.tb_frame.f_code.co_filename
        if "/hdc/" in fn:
            return True
        tb = tb.tb_next
    return False


def eager_reference(scn, perm=None):
    """(normalised result | None, exception | None, cube, input digests)."""
    cube = S.build_cube(scn, perm)
    try:
        ref = S.normalise(S.apply_op(scn, cube, lazy=False, perm=perm))
        return ref, None, cube
    except Exception as e:  # noqa: BLE001
        return None, e, cube


def relaxed(scn):
    """O6 situations in which 'raise or equal' (and only that) applies."""
    if scn.get("time_chunks"):
        return "time-chunked"
    if scn.get("secondary_chunks"):
        return "misaligned-secondary"
    core = scn["params"].get("dimension")
    if core in ("y", "x") and len(scn["chunks"][core]) > 1:
        return "core-dim-chunked"  # the kernel's core dimension is split: equal-or-raise, like time
    return None


def run_A(scn, cfg, chooser, ref_cache=None):
    """Execute one scenario under the simulated scheduler; returns RunResult."""
    import dask

    rr = RunResult()
    rr.scn, rr.cfg = scn, cfg
    reseed_uuid(hashlib.sha1(repr(sorted(cfg.items())).encode()).hexdigest())

    if ref_cache is not None and "ref" in ref_cache:
        ref, ref_exc = ref_cache["ref"]
    else:
        ref, ref_exc, _ = eager_reference(scn)
        if ref_cache is not None:
            ref_cache["ref"] = (ref, ref_exc)

    cube = S.build_cube(scn)
    aux = S.build_aux(scn, lazy=True)
    inputs = {"cube": cube.data, **aux["__watch__"]}
    before = S.input_digests(inputs)
    relax = relaxed(scn)

    # ---- graph construction (main thread, outside the simulation) ----------
    build_exc = None
    lazy_res = None
    try:
        prewatch = {}
        lazy_cube = S.make_lazy(scn, cube, watch=prewatch)
        if prewatch:  # the buffers an upstream history reads from are inputs too (O3)
            inputs.update(prewatch)
            before.update(S.input_digests(prewatch))
        lazy_res = S.apply_op(scn, lazy_cube, lazy=True, aux=aux)
        decl = S.declared(lazy_res)
    except Exception as e:  # noqa: BLE001
        build_exc = e

    # ---- optional second lazy result computed in the SAME graph (dask key collisions, shared
    #      state between two results of one operation) --------------------------------------
    pair = None
    shares_cube = False
    if build_exc is None and scn.get("pair") and not relax:
        try:
            pscn = scn["pair"]
            if pscn.get("share_cube") and (pscn["cube"] != scn["cube"] or pscn["layout"] != scn["layout"]):
                raise ValueError("inconsistent pair")  # (a hand-edited / badly cut case: run the primary only)
            pref, pref_exc, _ = eager_reference(pscn)
            if pref_exc is None:
                paux = S.build_aux(pscn, lazy=True)
                if pscn.get("share_cube"):
                    # both results hang off the very same lazy cube object (one upstream graph)
                    shares_cube = True
                    plazy = S.apply_op(pscn, lazy_cube, lazy=True, aux=paux)
                else:
                    pcube = S.build_cube(pscn)
                    plazy = S.apply_op(pscn, S.make_lazy(pscn, pcube), lazy=True, aux=paux)
                for k, v in paux["__watch__"].items():  # the second call's arguments are inputs too (O3)
                    inputs["pair." + k] = v
                before.update(S.input_digests({k: v for k, v in inputs.items() if k.startswith("pair.")}))
                pair = {"ref": pref, "lazy": plazy}
        except Exception:  # noqa: BLE001 - the pair is an optional extra; the primary still runs
            pair = None

    sim = Sim(chooser, max_steps=50000, preempt=cfg["preempt"], stall=cfg["stall"], log_lines=True)
    comp_exc = None
    computed = None
    pair_computed = None
    tee = tee_computed = None
    ex = None
    stats = proxies.ColdStats()
    if build_exc is None:
        get, ex = daskexec.make_get(sim, cfg["workers"], dup_exec=cfg["dup"])
        kernels = S.kernels_of(scn) if cfg["cold"] else []
        try:
            for k in kernels:
                proxies.set_target(k, proxies.make_cold(k, cfg["slow_steps"], stats))

            tee = lazy_cube if (scn.get("pipe") or {}).get("tee") else None

            def body():
                # one graph: the result, optionally a second result (pair) and optionally the upstream
                # cube itself (tee: a second consumer of the intermediate blocks the kernels read)
                items = [lazy_res] + ([pair["lazy"]] if pair is not None else []) + ([tee] if tee is not None else [])
                outs = list(dask.compute(*items, scheduler=get, optimize_graph=cfg["optimize_graph"]))
                out = outs.pop(0)
                pout = outs.pop(0) if pair is not None else None
                tout = outs.pop(0) if tee is not None else None
                return out, pout, tout

            computed, pair_computed, tee_computed = sim.run(body)
        except StepLimit:
            rr.outcome = "step-cap"  # a bound of the exploration, neither error nor violation
        except HarnessInconclusive as e:
            rr.harness = _exc_str(e)
        except Deadlock as e:
            rr.violations.append(("deadlock", str(e)))
        except Exception as e:  # noqa: BLE001
            comp_exc = e
        finally:
            # later call on the (now primed) cold wrapper must still be correct: checked by caller
            cold_targets = {k: proxies._TARGETS[k] for k in kernels}
            proxies.reset_targets()
    rr.tape = sim.tape
    rr.counters = dict(sim.counters)
    rr.probes = dict(sim.probes)
    rr.steps = sim.steps
    rr.digest = sim.digest()
    if ex is not None:
        rr.ntasks = ex.submitted
        rr.violations.extend(ex.violations)
        rr.counters["max_inflight"] = ex.max_inflight
    rr.counters["cold_compiles"] = stats.compiles
    rr.counters["cold_concurrent_compiles"] = stats.concurrent_compiles
    if rr.harness:
        rr.outcome = "harness"
        return rr
    if rr.outcome == "step-cap":
        return rr

    # ---- O3: inputs untouched ---------------------------------------------
    after = S.input_digests(inputs)
    for k in before:
        if before[k] != after[k]:
            rr.violations.append(("input-modified", f"input buffer '{k}' changed during the lazy run"))

    lazy_exc = build_exc or comp_exc
    if ref_exc is not None:
        if lazy_exc is None and not rr.violations:
            rr.violations.append(
                ("eager-raises-lazy-computes", f"eager raised {_exc_str(ref_exc)} but the lazy path returned a result")
            )
        rr.outcome = "both-raise"
        return rr
    if lazy_exc is not None:
        if relax:
            rr.outcome = "refused:" + relax
            return rr
        where = "graph construction" if build_exc is not None else "compute"
        if not _has_hdc_or_kernel_frame(lazy_exc) and build_exc is None and not cfg["cold"]:
            # nothing of hdc on the stack: simulator / dask internals -> harness, not a violation
            rr.harness = "no-hdc-frame " + _exc_str(lazy_exc) + "\n" + "".join(
                traceback.format_exception(type(lazy_exc), lazy_exc, lazy_exc.__traceback__)[-6:]
            )
            rr.outcome = "harness"
            return rr
        rr.violations.append(("lazy-raises", f"eager succeeded but lazy {where} raised {_exc_str(lazy_exc)}"))
        return rr
    if rr.violations and any(v[0] == "deadlock" for v in rr.violations):
        return rr

    got = S.normalise(computed)
    # ---- O1 -----------------------------------------------------------------
    for cls, msg in S.compare(ref, got):
        rr.violations.append((f"lazy-differs-{cls}", msg))
    # ---- O2 declared == computed -------------------------------------------
    for k, (ddtype, dshape, ddims) in decl.items():
        g = got.get(k)
        if g is None:
            continue
        if ddtype != g["dtype"]:
            rr.violations.append(
                ("declared-dtype", f"{k}: lazy object declares dtype {ddtype} but computes {g['dtype']} (eager: {ref[k]['dtype'] if k in ref else '?'})")
            )
        if tuple(dshape) != tuple(g["shape"]):
            rr.violations.append(("declared-shape", f"{k}: lazy object declares shape {dshape} but computes {g['shape']}"))
    # ---- the upstream cube computed in the same graph must still be the cube ----------
    if tee is not None and tee_computed is not None:
        rr.probes["tee_computed_in_one_graph"] = rr.probes.get("tee_computed_in_one_graph", 0) + 1
        tv = np.asarray(tee_computed.values)
        if tv.dtype != cube.data.dtype or not S.values_equal(tv, cube.data):
            rr.violations.append(("upstream-intermediate-modified", "the dask-backed input cube, computed in the same graph as the result, no longer equals the data it was built from (a task changed a block that another task reads)"))
    if pair is not None and pair_computed is not None:
        rr.probes["pair_computed_in_one_graph"] = rr.probes.get("pair_computed_in_one_graph", 0) + 1
        if shares_cube:
            rr.probes["pair_shares_lazy_cube"] = rr.probes.get("pair_shares_lazy_cube", 0) + 1
        for cls, msg in S.compare(pair["ref"], S.normalise(pair_computed)):
            rr.violations.append((f"paired-result-differs-{cls}", f"second lazy result computed in the same graph: {msg}"))
    # ---- cold wrapper still works afterwards ------------------------------
    if cfg["cold"] and not rr.violations:
        for k, fn in cold_targets.items():
            proxies.set_target(k, fn)
        try:
            if True:  # warnings are silenced process-wide (catch_warnings is not thread-safe)
                again = S.normalise(S.apply_op(scn, cube, lazy=False))
            for cls, msg in S.compare(ref, again):
                rr.violations.append((f"primed-wrapper-differs-{cls}", msg))
        except Exception as e:  # noqa: BLE001
            rr.violations.append(("primed-wrapper-raises", _exc_str(e)))
        finally:
            proxies.reset_targets()
    return rr


def chooser_for(rng, cfg, tape=None):
    if tape is not None:
        return TapeChooser(tape)
    return RandomChooser(rng, cfg["p_switch"])
