"""Operation catalogue, scenario generation and result normalisation for C12.

A *scenario* is a JSON-serialisable dict: operation, parameters, the cube (inline),
its dimension order, the y/x (and possibly time) chunking, secondary rasters and how
they are backed.  ``build`` turns it into xarray objects, ``apply_op`` runs the
accessor operation on either the numpy-backed or the dask-backed cube.
"""

from __future__ import annotations

import itertools
import random
import warnings

import numpy as np
import pandas as pd
import xarray as xr

NODATA = -3000
BIG_FRACTION = 0.0  # set by the thorough tier
ALT_NODATA = {"uint8": 255, "int8": -128, "uint16": 65535, "int64": -3000, "uint32": 4294967295}

# ---------------------------------------------------------------------------
# array <-> json
# ---------------------------------------------------------------------------


def arr2j(a):
    a = np.asarray(a)
    if a.dtype.kind in "US":
        return {"dtype": "str", "shape": list(a.shape), "data": [str(x) for x in a.ravel().tolist()]}
    if a.dtype.kind == "f":
        data = [float(x) for x in a.astype("float64").ravel().tolist()]
    elif a.dtype.kind == "b":
        data = [bool(x) for x in a.ravel().tolist()]
    else:
        data = [int(x) for x in a.ravel().tolist()]
    return {"dtype": str(a.dtype), "shape": list(a.shape), "data": data}


def j2arr(j):
    if j["dtype"] == "str":
        return np.array(j["data"], dtype="str").reshape(j["shape"])
    return np.array(j["data"], dtype="float64" if j["dtype"].startswith("float") else j["dtype"]).astype(
        j["dtype"]
    ).reshape(j["shape"])


# ---------------------------------------------------------------------------
# generation helpers
# ---------------------------------------------------------------------------


def composition(rng, n):
    """Random composition of n into positive parts (ragged chunking)."""
    mode = rng.randrange(4)
    if mode == 0 or n == 1:
        return [n]
    if mode == 1:
        return [1] * n
    if mode == 2:
        k = rng.randrange(1, n)  # two ragged parts
        return [k, n - k]
    parts = []
    left = n
    while left > 0:
        k = rng.randint(1, left)
        parts.append(k)
        left -= k
    return parts


def dekad_dates(start_index, n):
    """n consecutive dekad start dates (1st, 11th, 21st), from a dekad offset."""
    out = []
    y, m, d = 2000, 1, 0
    idx = start_index
    y += idx // 36
    m = (idx % 36) // 3 + 1
    d = idx % 3
    for _ in range(n):
        out.append(f"{y:04d}-{m:02d}-{(1, 11, 21)[d]:02d}")
        d += 1
        if d == 3:
            d = 0
            m += 1
            if m == 13:
                m = 1
                y += 1
    return out


def sprinkle_nodata(rng, nprng, data, nodata, pattern):
    """data: (T, Y, X) array, modified in place according to the drawn pattern."""
    T, Y, X = data.shape
    if pattern == "none":
        return
    if pattern == "isolated":
        mask = nprng.random(data.shape) < 0.12
        data[mask] = nodata
    elif pattern == "runs":
        for y in range(Y):
            for x in range(X):
                if nprng.random() < 0.6:
                    a = int(nprng.integers(0, T))
                    b = int(min(T, a + nprng.integers(1, max(2, T // 2))))
                    data[a:b, y, x] = nodata
    elif pattern == "allpix":
        y, x = int(nprng.integers(0, Y)), int(nprng.integers(0, X))
        data[:, y, x] = nodata
        mask = nprng.random(data.shape) < 0.05
        data[mask] = nodata
    elif pattern == "allbutone":
        y, x = int(nprng.integers(0, Y)), int(nprng.integers(0, X))
        keep = int(nprng.integers(0, T))
        v = data[keep, y, x]
        data[:, y, x] = nodata
        data[keep, y, x] = v
        y2, x2 = int(nprng.integers(0, Y)), int(nprng.integers(0, X))
        if (y2, x2) != (y, x):
            data[:, y2, x2] = nodata


NODATA_PATTERNS = ["none", "isolated", "runs", "allpix", "allbutone"]

LAYOUTS = [list(p) for p in itertools.permutations(["time", "y", "x"])]


def _base_values(nprng, shape, dtype, kind):
    if kind == "binary":
        v = (nprng.random(shape) < 0.6).astype(dtype)
        return v
    if kind == "precip":
        v = nprng.gamma(2.0, 30.0, size=shape)
        v[nprng.random(shape) < 0.15] = 0
        if np.dtype(dtype).kind in "iu":
            return np.round(v).astype(dtype)
        return v.astype(dtype)
    if np.dtype(dtype).itemsize == 1 and kind != "binary":
        return nprng.integers(0, 100, size=shape).astype(dtype)  # 8-bit data: small values
    if kind == "smallint":
        return nprng.integers(0, 900, size=shape).astype(dtype)
    # ndvi-like signal
    T = shape[0]
    t = np.arange(T).reshape(T, 1, 1)
    base = 3000 + 2500 * np.sin(2 * np.pi * t / max(6, T / 2) + nprng.random((1,) + shape[1:]) * 6)
    v = base + nprng.normal(0, 400, size=shape)
    if np.dtype(dtype).kind in "iu":
        return np.round(v).astype(dtype)
    return v.astype(dtype)


# ---------------------------------------------------------------------------
# the catalogue: op -> generator of (dtype choices, value kind, params)
# ---------------------------------------------------------------------------

OPS = [
    "whits",
    "whitsvc",
    "whitswcv",
    "whitint",
    "spi",
    "lroo",
    "croo",
    "autocorr",
    "mktrend",
    "mean_grp",
    "rolling_sum",
    "zonal_mean",
    "anom",
    "iteragg",
    "dekad",
]

# operations whose kernels are behind the lazycompile wrapper (name -> (module, attr))
LAZY_KERNELS = {
    "ws2dgu": ("hdc.algo.ops", "ws2dgu"),
    "ws2dpgu": ("hdc.algo.ops", "ws2dpgu"),
    "ws2doptv": ("hdc.algo.ops", "ws2doptv"),
    "ws2doptvp": ("hdc.algo.ops", "ws2doptvp"),
    "ws2doptvplc": ("hdc.algo.ops", "ws2doptvplc"),
    "ws2dwcv": ("hdc.algo.ops", "ws2dwcv"),
    "ws2dwcvp": ("hdc.algo.ops", "ws2dwcvp"),
    "tinterpolate": ("hdc.algo.ops", "tinterpolate"),
    "lroo": ("hdc.algo.ops", "lroo"),
    "autocorr": ("hdc.algo.ops", "autocorr"),
    "autocorr_tyx": ("hdc.algo.ops", "autocorr_tyx"),
    "gammastd_grp": ("hdc.algo.ops.stats", "gammastd_grp"),
    "_mann_kendall_trend_gu": ("hdc.algo.ops.stats", "_mann_kendall_trend_gu"),
    "_mann_kendall_trend_gu_nd": ("hdc.algo.ops.stats", "_mann_kendall_trend_gu_nd"),
    "mean_grp": ("hdc.algo.ops.stats", "mean_grp"),
    "rolling_sum": ("hdc.algo.ops.stats", "rolling_sum"),
    "do_mean": ("hdc.algo.ops.zonal", "do_mean"),
    "ws2doptvplc_tyx": ("hdc.algo.ops.ws2doptvplc", "ws2doptvplc_tyx"),
}


def kernels_of(scn):
    """Names (keys of LAZY_KERNELS) of the lazily compiled kernels a scenario's op calls."""
    op, p = scn["op"], scn["params"]
    if op == "whits":
        return ["ws2dpgu"] if p.get("p") is not None else ["ws2dgu"]
    if op == "whitsvc":
        if p["variant"] == "lc":
            return ["ws2doptvplc"]
        return ["ws2doptvp"] if p.get("p") else ["ws2doptv"]
    if op == "whitswcv":
        return ["ws2dwcvp"] if p.get("p") else ["ws2dwcv"]
    if op == "whitint":
        return ["tinterpolate"]
    if op == "spi":
        return ["gammastd_grp"] if p.get("groups") is not None else []
    if op == "lroo":
        return ["lroo"]
    if op == "autocorr":
        return ["autocorr_tyx"] if scn["layout"][0] == "time" else ["autocorr"]
    if op == "mktrend":
        return ["_mann_kendall_trend_gu_nd"] if p.get("nodata_attr") else ["_mann_kendall_trend_gu"]
    if op == "mean_grp":
        return ["mean_grp"]
    if op == "rolling_sum":
        return ["rolling_sum"]
    if op == "zonal_mean":
        return ["do_mean"]
    return []


def gen_scenario(rng, ops=None, force=None):
    """Draw one scenario from ``rng`` (a ``random.Random``)."""
    force = force or {}
    op = force.get("op") or rng.choice(ops or OPS)
    T = rng.randint(5, 24)
    Y = rng.randint(1, 6)
    X = rng.randint(1, 6)
    if rng.random() < 0.1 and op not in ("whitint", "whitswcv"):
        T = rng.randint(2, 4)  # very short series (both paths may legitimately refuse them)
    if "shape" in force:
        T, Y, X = force["shape"]
    elif rng.random() < BIG_FRACTION:  # (always drawn, so the stream does not depend on the tier)
        # thorough tier: a share of larger cubes (more tasks per graph, longer series)
        T = rng.randint(25, 48)
        Y = rng.randint(4, 10)
        X = rng.randint(4, 10)
    npseed = rng.randrange(2**32)
    nprng = np.random.Generator(np.random.PCG64(npseed))
    layout = list(rng.choice(LAYOUTS))
    pattern = rng.choice(NODATA_PATTERNS)
    nodata = NODATA
    params = {}
    secondary = {}
    attrs = {}
    dtype = "int16"
    kind = "ndvi"

    if op == "whits":
        dtype = rng.choice(["int16", "int16", "int32", "float32", "float64"])
        variant = rng.choice(["s", "sg", "s_p", "sg_p"])
        params["variant"] = variant
        if variant.startswith("sg"):
            sg = nprng.uniform(-2, 4, size=(Y, X))
            if rng.random() < 0.4:
                sg[nprng.random((Y, X)) < 0.2] = -np.inf
            secondary["sg"] = arr2j(sg.astype(rng.choice(["float64", "float32"])))
        else:
            params["s"] = rng.choice([0.0, 0.1, 1.0, 10.0, 100.0, 1e4])
        params["p"] = rng.choice([0.5, 0.9, 0.95]) if variant.endswith("_p") else None
    elif op == "whitsvc":
        variant = rng.choice(["srange", "srange", "lc"])
        params["variant"] = variant
        if variant == "lc":
            dtype = "int16"
            lc = nprng.uniform(-1, 1, size=(Y, X))
            secondary["lc"] = arr2j(lc.astype(rng.choice(["float64", "float32"])))
            params["p"] = rng.choice([0.5, 0.9, 0.95])
        else:
            dtype = rng.choice(["int16", "int16", "float32", "float64"])
            lo = rng.choice([-2.0, -1.0, 0.0])
            step = rng.choice([0.2, 0.5, 1.0])
            n = rng.randint(2, 8)
            params["srange"] = [lo + i * step for i in range(n)]
            params["p"] = rng.choice([None, 0.9, 0.95])
    elif op == "whitswcv":
        dtype = rng.choice(["int16", "int16", "float32", "float64"])
        if rng.random() < 0.5:
            params["srange"] = None
        else:
            lo = rng.choice([-2.0, -1.0, 0.0])
            step = rng.choice([0.2, 0.5, 1.0])
            n = rng.randint(2, 8)
            params["srange"] = [lo + i * step for i in range(n)]
        params["p"] = rng.choice([None, 0.9, 0.95])
        params["robust"] = rng.choice([True, False])
    elif op == "whitint":
        dtype = "int16"
        step = rng.randint(1, 10)
        # observation marks at the end of each period of `step` days (plus a ragged tail)
        m = T * step + rng.randint(0, 3)
        m = max(m, 4)
        template = np.zeros(m, dtype="float64")
        pos = sorted(rng.sample(range(m), T)) if rng.random() < 0.5 else [min(m - 1, i * step + step - 1) for i in range(T)]
        if len(set(pos)) != T:
            pos = sorted(rng.sample(range(m), T))
        template[pos] = 1
        g = rng.randint(1, max(1, min(12, m)))
        labels = (np.arange(m) // g).astype("int32")
        if rng.random() < 0.3:
            labels = labels + rng.randint(1, 500)
        params["template"] = arr2j(template)
        params["labels"] = arr2j(labels)
    elif op == "spi":
        dtype = rng.choice(["int16", "float32"])
        kind = "precip"
        variant = rng.choice(["default", "calib", "groups", "groups_calib"])
        if "shape" in force and T < 9:
            variant = rng.choice(["default", "calib"])
        params["variant"] = variant
        params["nodata_via"] = rng.choice(["attr", "arg"])
        params["groups"] = None
        params["cal"] = None
        params["dtype"] = rng.choice([None, None, None, "int16", "float32", "int32"])
        if variant.startswith("groups"):
            T = max(T, 9)
            k = rng.randint(1, max(1, T // 4))
            glabels = [rng.choice(["a", "b", "c", "d", "e", "f"])[0] + str(i) for i in range(k)]
            r = rng.random()
            if r < 0.35:
                groups = [glabels[i % k] for i in range(T)]
            elif r < 0.7:
                groups = sorted(glabels[i % k] for i in range(T))
            else:
                # unbalanced group sizes (each group keeps >= 3 members so its calibration window is valid)
                sizes = [3] * k
                for _ in range(T - 3 * k):
                    sizes[rng.randrange(k) if rng.random() < 0.5 else 0] += 1
                groups = [glabels[gi] for gi, sz in enumerate(sizes) for _ in range(sz)]
                if rng.random() < 0.5:
                    rng.shuffle(groups)
            params["groups"] = groups
        if variant.endswith("calib"):
            a = rng.randint(0, T // 4)
            b = rng.randint(T - 1 - T // 4, T - 1)
            params["cal"] = [a, b]  # indices into the time axis; turned into dates at build
    elif op == "lroo":
        dtype = "uint8"
        kind = "binary"
        pattern = rng.choice(["none", "isolated"])
        nodata = 255
    elif op == "croo":
        dtype = rng.choice(["uint8", "int16", "float32"])
        kind = "binary"
        pattern = rng.choice(["none", "isolated"])
        nodata = 2
    elif op == "autocorr":
        dtype = rng.choice(["int16", "int32", "float32", "float64"])
        params["float"] = dtype.startswith("float")
    elif op == "mktrend":
        dtype = rng.choice(["int16", "float32"])
        params["nodata_attr"] = rng.choice([True, False])
        if not params["nodata_attr"]:
            pattern = "none"
        kind = rng.choice(["ndvi", "smallint"])
    elif op == "mean_grp":
        dtype = rng.choice(["int16", "int32", "int64", "float32"])
        k = rng.randint(1, max(1, T // 2))
        r = rng.random()
        if r < 0.35:
            groups = sorted(i % k for i in range(T))
        elif r < 0.7:
            groups = [i % k for i in range(T)]
        else:
            # unbalanced sizes, every id 0..k-1 present
            groups = list(range(k)) + [rng.randrange(k) if rng.random() < 0.5 else 0 for _ in range(T - k)]
            if rng.random() < 0.5:
                groups = sorted(groups)
            else:
                rng.shuffle(groups)
        params["groups"] = groups
        params["groups_as"] = rng.choice(["list", "ndarray"])
        params["nodata_via"] = rng.choice(["attr", "arg"])
    elif op == "rolling_sum":
        dtype = rng.choice(["float32", "int16", "int64"])
        params["window"] = rng.choice([1, 2, 3, T, rng.randint(1, T)])
        params["dtype"] = rng.choice([None, None, None, "float32", "float64", "int32"])
        if rng.random() < 0.15 and "shape" not in force:
            # the rolling dimension is a parameter: roll along y instead of time
            params["dimension"] = "y"
            params["window"] = rng.randint(1, Y)
        params["nodata_via"] = rng.choice(["attr", "arg"])
        kind = rng.choice(["precip", "smallint"])
    elif op == "zonal_mean":
        layout = rng.choice([["time", "y", "x"], ["time", "y", "x"], ["time", "x", "y"]])
        dtype = rng.choice(["float32", "float64", "int16", "int32"])
        kind = "smallint"  # integer-valued -> accumulation is exact, order cannot matter
        nz = rng.randint(1, 5)
        znodata = rng.choice([255, -1, 99])
        zones = nprng.integers(0, nz, size=(Y, X)).astype("int16" if znodata < 0 else rng.choice(["uint8", "int16", "int32"]))
        if rng.random() < 0.5:
            zones[nprng.random((Y, X)) < 0.2] = znodata
        secondary["zones"] = arr2j(zones)
        params["nz"] = nz
        params["znodata"] = znodata
        params["dtype"] = rng.choice(["float32", "float64"])
        params["nan_cells"] = dtype.startswith("float") and rng.random() < 0.5
        params["name"] = rng.choice([None, "zm"])
        params["dim_name"] = rng.choice(["zones", "adm"])
    elif op == "anom":
        dtype = rng.choice(["int16", "float32", "float64"])
        params["kind"] = rng.choice(["ratio", "diff"])
        params["offset"] = rng.choice([0, 1, 0.5])
        params["ref"] = rng.choice(["yx", "scalar"])
        pattern = "none"
        kind = "precip"
        if params["ref"] == "yx":
            secondary["ref"] = arr2j((nprng.gamma(2.0, 30.0, size=(Y, X)) + 1).astype("float32"))
        elif params["ref"] == "scalar":
            params["refval"] = 37.5
    elif op == "iteragg":
        dtype = rng.choice(["int16", "float32", "float64"])
        params["kind"] = rng.choice(["sum", "mean", "full"])
        params["n"] = rng.choice([None, 1, 2, 3, rng.randint(1, T)])
        params["begin"] = rng.choice([None, rng.randint(0, T - 1)])
        params["end"] = rng.choice([None, rng.randint(0, T - 1)])
        if rng.random() < 0.15 and "shape" not in force:
            # aggregate along y instead of time (begin/end are labels of that dimension)
            params["dim"] = "y"
            params["n"] = rng.choice([None, 1, 2, rng.randint(1, Y)])
            params["begin"] = rng.choice([None, rng.randint(0, Y - 1)])
            params["end"] = rng.choice([None, rng.randint(0, Y - 1)])
        pattern = "none"
        kind = "smallint" if dtype != "int16" else "precip"
        if dtype.startswith("float") and rng.random() < 0.5:
            params["nan_cells"] = True
    elif op == "dekad":
        dtype = "int16"
        pattern = "none"
    else:
        raise ValueError(op)

    # less common storage types for the operations whose kernels accept any real input
    if "dtype" not in force and op in ("whits", "whitswcv", "autocorr", "croo", "iteragg", "anom", "zonal_mean", "rolling_sum", "mktrend") and rng.random() < 0.15:
        if not (op == "whits" and False):
            alt = rng.choice(["uint8", "int8", "uint16", "int64", "uint32"])
            if op == "autocorr":
                params["float"] = False
            if op in ("iteragg",) and params.get("nan_cells"):
                params["nan_cells"] = False
            if op == "zonal_mean":
                params["nan_cells"] = False
            dtype = alt
            nodata = ALT_NODATA[alt]
            if op == "croo":
                nodata = 2
    if "dtype" in force:
        dtype = force["dtype"]
        if dtype in ALT_NODATA and op not in ("croo", "lroo"):
            nodata = ALT_NODATA[dtype]
            if op == "autocorr":
                params["float"] = False
        if not dtype.startswith("float") and params.get("nan_cells"):
            params["nan_cells"] = False
    if op == "iteragg":
        # float reductions must stay exact (integer-valued data): summation order legitimately
        # differs between numpy and dask, and only exact sums make bit-identity a fair oracle
        kind = "smallint" if dtype.startswith("float") else "precip"
    if "layout" in force:
        layout = list(force["layout"])
    for k, v in (force.get("like") or {}).items():
        if k in params:
            params[k] = v
    if force.get("no_cube"):
        return {
            "op": op,
            "params": params,
            "nodata": nodata,
            "secondary": secondary,
            "secondary_backing": {k: "numpy" for k in secondary},
        }
    data = _base_values(nprng, (T, Y, X), dtype, kind)
    if op == "autocorr" and params["float"]:
        tmp = np.zeros((T, Y, X))
        sprinkle_nodata(rng, nprng, tmp, 1, pattern)
        data[tmp == 1] = np.nan
    elif op == "lroo":
        tmp = np.zeros((T, Y, X))
        sprinkle_nodata(rng, nprng, tmp, 1, pattern)
        data[tmp == 1] = rng.choice([0, 2, 255])
    elif op == "croo":
        tmp = np.zeros((T, Y, X))
        sprinkle_nodata(rng, nprng, tmp, 1, pattern)
        data[tmp == 1] = 2
    elif op in ("zonal_mean", "iteragg") and params.get("nan_cells"):
        sprinkle_nodata(rng, nprng, data, np.nan, "isolated")
        if op == "zonal_mean":
            sprinkle_nodata(rng, nprng, data, nodata, pattern)
    else:
        sprinkle_nodata(rng, nprng, data, nodata, pattern)
        # NaN cells for the kernels that give NaN/inf zero weight (whits, whitswcv).  (Before /repo
        # commit "fix: GCV smoothers keep a defined best fit ..." the GCV kernels raised on such
        # input from inside the gufunc loop -- DESIGN 9.3 #8, 9.4.)
        if op in ("whits", "whitswcv") and dtype.startswith("float") and rng.random() < 0.25:
            data[nprng.random(data.shape) < 0.05] = np.nan

    # invalid-but-not-nodata readings in rainfall data (the SPI kernels expect and skip them)
    if op == "spi" and rng.random() < 0.25:
        for _ in range(rng.randint(1, 3)):
            data[rng.randrange(T), rng.randrange(Y), rng.randrange(X)] = -rng.randint(1, 9)
        pattern = pattern + "+negative"
    # degenerate pixels (early-exit branches of the kernels): all zero, constant, mostly zero, one spike
    if op not in ("dekad",) and rng.random() < 0.4:
        for _ in range(rng.randint(1, 2)):
            py, px = rng.randrange(Y), rng.randrange(X)
            sp = rng.choice(["zeros", "const", "mostly-zero", "spike", "ones"])
            if sp == "zeros":
                data[:, py, px] = 0
            elif sp == "ones":
                data[:, py, px] = 1
            elif sp == "const":
                data[:, py, px] = data[rng.randrange(T), py, px]
            elif sp == "mostly-zero":
                keep = rng.randrange(T)
                v = data[keep, py, px]
                data[:, py, px] = 0
                data[keep, py, px] = v
            else:
                data[:, py, px] = 0
                data[rng.randrange(T), py, px] = 1000 if np.dtype(dtype).itemsize > 1 else 1
        pattern = pattern + "+special"
    # plateaus: neighbouring pixels with exactly the same series (water, desert, masks) -- what a
    # "same as the pixel before" shortcut or state carried from pixel to pixel confuses (s52)
    if op not in ("dekad",) and Y * X > 1 and rng.random() < 0.2:
        for _ in range(rng.randint(1, 3)):
            py, px = rng.randrange(Y), rng.randrange(X)
            qy, qx = (py + 1, px) if rng.random() < 0.5 else (py, px + 1)
            if qy < Y and qx < X:
                data[:, qy, qx] = data[:, py, px]
        pattern = pattern + "+plateau"
    # whole time steps without any valid observation (a block that holds only such steps must
    # behave like the same steps inside a larger block)
    if op not in ("dekad", "lroo", "croo") and rng.random() < 0.25:
        fill = np.nan if (op == "autocorr" and params.get("float")) or (params.get("nan_cells") and rng.random() < 0.5) else nodata
        for _ in range(rng.randint(1, 2)):
            data[rng.randrange(T), :, :] = fill
        pattern = pattern + "+empty-step"
    tstart = rng.randrange(0, 72)
    chunks = {"y": composition(rng, Y), "x": composition(rng, X)}
    scn = {
        "op": op,
        "params": params,
        "cube": arr2j(data),
        "nodata": nodata,
        "tstart": tstart,
        "layout": layout,
        "chunks": chunks,
        "time_chunks": None,
        "secondary": secondary,
        "secondary_backing": {k: rng.choice(["numpy", "dask"]) for k in secondary},
        # labelled secondary rasters are matched by dimension NAME: their own dim order is free
        "secondary_order": {k: rng.choice([None, "yx", "xy"]) for k in secondary},
        "aux_coords": rng.choice([False, False, False, False, False, False, True, True, "dask"]),
        # how scalar arguments / the nodata attribute are typed, and how the cube is named
        "scalar_kind": rng.choice(["py", "py", "np", "npfloat"]),
        "cube_name": rng.choice(["band", "band", None, "ndvi"]),
        "pattern": pattern,
    }
    return scn


# ---------------------------------------------------------------------------
# building xarray objects
# ---------------------------------------------------------------------------


def cube_coords(scn):
    T, Y, X = scn["cube"]["shape"]
    time = pd.to_datetime(dekad_dates(scn["tstart"], T))
    y = 10.0 - 0.5 * np.arange(Y)
    x = 30.0 + 0.5 * np.arange(X)
    return time, y, x


def typed_scalar(scn, v, dtype=None):
    """A scalar argument as the scenario says users pass it: python number, numpy scalar of the
    cube's dtype, or numpy float64."""
    kind = scn.get("scalar_kind", "py")
    if v is None or isinstance(v, bool):
        return v
    if kind == "np" and dtype is not None and np.dtype(dtype).kind in "iuf":
        try:
            if float(np.dtype(dtype).type(v)) == float(v):
                return np.dtype(dtype).type(v)
        except (OverflowError, ValueError):
            pass
        return v
    if kind == "npfloat":
        return np.float64(v)
    return v


def build_cube(scn, perm=None):
    """numpy-backed DataArray in the scenario's dimension order.

    ``perm``: optional permutation of the flattened (y, x) pixel positions (O5).
    """
    data = j2arr(scn["cube"])
    T, Y, X = data.shape
    if perm is not None:
        data = data.reshape(T, Y * X)[:, perm].reshape(T, Y, X)
    time, y, x = cube_coords(scn)
    coords = {"time": time, "y": y, "x": x}
    if scn.get("aux_coords"):
        # non-index coordinates, as real cubes carry them: one along time, one over the pixel grid
        # (a label of the position, hence NOT permuted with the pixel data in O5), one scalar
        lat = (y.reshape(-1, 1) + 0.001 * x.reshape(1, -1)).astype("float64")
        coords["doy"] = ("time", np.asarray(time.dayofyear, dtype="int64"))
        if scn.get("aux_coords") == "dask":
            import dask.array as dsa

            lat = dsa.from_array(lat, chunks=(max(1, lat.shape[0] // 2), lat.shape[1]))
        coords["lat2d"] = (("y", "x"), lat)
        coords["level"] = 7
    da = xr.DataArray(data, dims=("time", "y", "x"), coords=coords, name=scn.get("cube_name", "band"))
    da = da.transpose(*scn["layout"]).copy()
    da.attrs["nodata"] = typed_scalar(scn, scn["nodata"], data.dtype)
    op, p = scn["op"], scn["params"]
    if op in ("spi", "mean_grp", "rolling_sum") and p.get("nodata_via") == "arg":
        del da.attrs["nodata"]
    if op == "autocorr" and p["float"]:
        del da.attrs["nodata"]
    if op == "mktrend" and not p["nodata_attr"]:
        del da.attrs["nodata"]
    if (scn.get("pipe") or {}).get("pre") == "readonly":
        da.data.setflags(write=False)  # e.g. a memory-mapped / decoded-once buffer; same for both paths
    return da


def build_secondary(scn, name, perm=None):
    a = j2arr(scn["secondary"][name])
    Y, X = a.shape
    if perm is not None:
        a = a.reshape(Y * X)[perm].reshape(Y, X)
    _, y, x = cube_coords(scn)
    yx = [d for d in scn["layout"] if d != "time"]
    order = (scn.get("secondary_order") or {}).get(name)
    if order == "yx":
        yx = ["y", "x"]
    elif order == "xy":
        yx = ["x", "y"]
    da = xr.DataArray(a, dims=("y", "x"), coords={"y": y, "x": x}).transpose(*yx).copy()
    return da


def lazy_chunks(scn):
    ch = {"y": tuple(scn["chunks"]["y"]), "x": tuple(scn["chunks"]["x"])}
    ch["time"] = tuple(scn["time_chunks"]) if scn.get("time_chunks") else -1
    return ch


def make_lazy(scn, cube, watch=None):
    """dask-backed version of ``cube``.  Without a pipeline this is ``cube.chunk(...)``; with
    ``scn['pipe']['pre']`` the dask array has an *upstream history* (lazy transpose, cast, strided or
    fancy selection, concatenation + rechunk, Fortran-ordered / read-only base ...) that computes to
    exactly the same cube with the same chunks -- what a kernel sees as "a block" then differs in
    strides, ownership, writability and graph shape, which the property says must not matter.
    ``watch`` (dict) receives the base buffers the dask graph reads from (O3)."""
    pre = (scn.get("pipe") or {}).get("pre")
    if not pre:
        return cube.chunk(lazy_chunks(scn))
    import dask.array as dsa

    dims = list(cube.dims)
    arr = cube.data
    lc = lazy_chunks(scn)
    chunks = tuple(lc.get(d, -1) if lc.get(d, -1) != -1 else (arr.shape[i],) for i, d in enumerate(dims))
    chunks = tuple(tuple(c) for c in chunks)
    prng = random.Random((scn.get("pipe") or {}).get("seed", 0))
    base = arr
    iy = dims.index("y")
    it = dims.index("time")
    if pre == "lazy-transpose":
        order = ["time", "y", "x"] if dims != ["time", "y", "x"] else ["x", "y", "time"]
        base = np.ascontiguousarray(cube.transpose(*order).data)
        bch = tuple(chunks[dims.index(d)] for d in order)
        d = dsa.from_array(base, chunks=bch).transpose([order.index(dd) for dd in dims])
    elif pre == "astype":
        wide = {"i": "int64", "u": "uint64", "f": "float64"}[arr.dtype.kind]
        base = arr.astype(wide)
        d = dsa.from_array(base, chunks=chunks).astype(arr.dtype)
    elif pre == "arith":
        d = dsa.from_array(arr, chunks=chunks) * 1
    elif pre == "strided":
        shp = list(arr.shape)
        shp[iy] *= 2
        base = np.full(shp, 77, dtype=arr.dtype)
        sl = [slice(None)] * 3
        sl[iy] = slice(None, None, 2)
        base[tuple(sl)] = arr
        bch = list(chunks)
        bch[iy] = tuple(2 * c for c in chunks[iy])
        d = dsa.from_array(base, chunks=tuple(bch))[tuple(sl)]
    elif pre == "rechunk":
        src = tuple(tuple(composition(prng, n)) for n in arr.shape)
        d = dsa.from_array(arr, chunks=src).rechunk(chunks)
    elif pre == "time-concat":
        T = arr.shape[it]
        k = prng.randint(1, T - 1) if T >= 2 else 0
        sl1 = [slice(None)] * 3
        sl2 = [slice(None)] * 3
        sl1[it] = slice(0, k)
        sl2[it] = slice(k, None)
        ch1 = list(chunks)
        ch2 = list(chunks)
        ch1[it] = (k,)
        ch2[it] = (T - k,)
        if k == 0:
            d = dsa.from_array(arr, chunks=chunks)
        else:
            d = dsa.concatenate([dsa.from_array(np.ascontiguousarray(arr[tuple(sl1)]), chunks=tuple(ch1)), dsa.from_array(np.ascontiguousarray(arr[tuple(sl2)]), chunks=tuple(ch2))], axis=it).rechunk(chunks)
    elif pre == "fortran":
        base = np.asfortranarray(arr)
        d = dsa.from_array(base, chunks=chunks)
    elif pre == "take":
        n = arr.shape[iy]
        perm = list(range(n))
        prng.shuffle(perm)
        inv = np.argsort(perm)
        base = np.ascontiguousarray(np.take(arr, perm, axis=iy))  # base[..., j, ...] = arr[..., perm[j], ...]
        d = dsa.take(dsa.from_array(base, chunks=chunks), inv, axis=iy).rechunk(chunks)
    elif pre == "readonly":
        d = dsa.from_array(arr, chunks=chunks)  # (build_cube made the buffer read-only for both paths)
    else:
        raise ValueError(pre)
    if d.chunks != chunks:
        d = d.rechunk(chunks)
    if watch is not None and base is not arr:
        watch["pre-base"] = base
    return cube.copy(data=d)


PRE_KINDS = ["lazy-transpose", "astype", "arith", "strided", "rechunk", "time-concat", "fortran", "take", "readonly"]
POST_KINDS = ["isel", "point", "transpose", "max", "where", "astype", "diff"]
POST_STRUCTURAL = ["isel", "point", "transpose"]


def gen_pipe(rng, scn):
    """Upstream history of the lazy cube and a downstream consumer of the result (O11)."""
    op, p = scn["op"], scn["params"]
    pipe = {"pre": None, "post": None, "seed": rng.randrange(2**31), "fa": rng.random(), "fb": rng.random()}
    r = rng.random()
    if r < 0.6:
        pipe["pre"] = rng.choice(PRE_KINDS)
    if r > 0.4:
        # a dtype argument that only feeds the dask meta is a recorded finding (KF1/KF2); its
        # consequences downstream are the same finding, so only structural consumers there
        pipe["post"] = rng.choice(POST_STRUCTURAL if p.get("dtype") else POST_KINDS)
    if pipe["pre"] == "astype" and scn["cube"]["dtype"] in ("int64", "uint64", "float64"):
        pipe["pre"] = "arith"
    # tee: the upstream cube is a second output of the same graph (its blocks are then shared
    # between the kernel task and a plain consumer -- an in-place edit of a block shows there)
    pipe["tee"] = bool(pipe["pre"]) and rng.random() < 0.5
    return pipe


def _post_leaf(da, pipe):
    kind = pipe["post"]
    fa, fb = pipe["fa"], pipe["fb"]
    free = [d for d in da.dims if d != "time"]
    if kind == "isel":
        sel = {}
        for d in free + (["time"] if pipe.get("seed", 0) % 2 and "time" in da.dims else []):
            n = da.sizes[d]
            a = min(n - 1, int(min(fa, fb) * n))
            b = max(a + 1, int(np.ceil(max(fa, fb) * n)))
            sel[d] = slice(a, b)
        return da.isel(sel)
    if kind == "point":
        return da.isel({d: min(da.sizes[d] - 1, int(f * da.sizes[d])) for d, f in zip(free, (fa, fb, fa))})
    if kind == "transpose":
        return da.transpose(*reversed(da.dims))
    if kind == "max":
        if not free or da.dtype.kind not in "iuf":
            return da
        if da.size == 0:
            # e.g. rolling.sum with a window longer than the series: zero time steps.  numpy reduces
            # a non-empty axis of an empty array to an empty array, dask.array.nanmax refuses every
            # zero-size array at graph construction -- a difference between the two libraries in
            # *this consumer*, not in hdc (DESIGN 9.4); the result is compared unreduced instead
            return da
        return da.max(dim=free[int(fa * len(free)) % len(free)])
    if kind == "where":
        if da.dtype.kind not in "iuf":
            return da
        return da.where(da > 0)
    if kind == "astype":
        if da.dtype.kind not in "iuf":
            return da
        return da.astype("float64")
    if kind == "diff":
        if "time" not in da.dims or da.dtype.kind not in "iuf" or da.sizes["time"] < 2:
            return da
        return da.astype("float64") - da.astype("float64").shift(time=1)
    raise ValueError(kind)


def apply_post(scn, res):
    """Downstream consumer applied leaf-wise (same code for the eager and the lazy result)."""
    pipe = scn.get("pipe") or {}
    if not pipe.get("post"):
        return res
    if isinstance(res, xr.DataArray):
        return _post_leaf(res, pipe)
    if isinstance(res, xr.Dataset):
        return {str(k): _post_leaf(res[k], pipe) for k in res.data_vars}
    if isinstance(res, (list, tuple)):
        return [apply_post(scn, r) for r in res]
    if isinstance(res, dict):
        return {k: apply_post(scn, r) for k, r in res.items()}
    return res


def secondary_for(scn, name, lazy, perm=None):
    da = build_secondary(scn, name, perm)
    if lazy and scn["secondary_backing"].get(name) == "dask":
        ch = scn.get("secondary_chunks", {}).get(name) or scn["chunks"]
        da = da.chunk({"y": tuple(ch["y"]), "x": tuple(ch["x"])})
    return da


# ---------------------------------------------------------------------------
# applying an operation
# ---------------------------------------------------------------------------


def build_aux(scn, lazy, perm=None):
    """Every auxiliary argument object of the operation, built once so the caller can
    watch it (O3: inputs are read-only).  numpy arrays / DataArrays by name."""
    op, p = scn["op"], scn["params"]
    aux = {}
    watch = {}
    for name in scn["secondary"]:
        base = build_secondary(scn, name, perm)
        watch[name] = base.data
        if lazy and scn["secondary_backing"].get(name) == "dask":
            ch = (scn.get("secondary_chunks") or {}).get(name) or scn["chunks"]
            base = base.chunk({"y": tuple(ch["y"]), "x": tuple(ch["x"])})
        aux[name] = base
    if op == "zonal_mean":
        aux["zones"].attrs["nodata"] = p["znodata"]
    if p.get("srange") is not None:
        aux["srange"] = np.array(p["srange"], dtype="float64")
    if op == "whitint":
        aux["labels"] = j2arr(p["labels"])
        aux["template"] = j2arr(p["template"])
    if op == "mean_grp" and p["groups_as"] == "ndarray":
        aux["groups"] = np.array(p["groups"], dtype="int16")
    for k, v in aux.items():
        if isinstance(v, np.ndarray):
            watch[k] = v
    aux["__watch__"] = watch
    return aux


def apply_op(scn, cube, lazy, perm=None, aux=None):
    """The scenario's accessor operation followed by its downstream consumer, if any (O11)."""
    return apply_post(scn, apply_op_raw(scn, cube, lazy, perm=perm, aux=aux))


def apply_op_raw(scn, cube, lazy, perm=None, aux=None):
    """Run the scenario's accessor operation on ``cube`` (numpy- or dask-backed)."""
    op, p = scn["op"], scn["params"]
    nodata = typed_scalar(scn, scn["nodata"], scn["cube"]["dtype"])
    if aux is None:
        aux = build_aux(scn, lazy, perm)
    ts = lambda v: typed_scalar(scn, v, "float64") if scn.get("scalar_kind") != "py" else v  # noqa: E731
    if True:  # warnings are silenced process-wide (catch_warnings is not thread-safe)
        if op == "whits":
            kw = {"nodata": nodata, "p": ts(p["p"])}
            if "s" in p:
                kw["s"] = ts(p["s"])
            else:
                kw["sg"] = aux["sg"]
            return cube.hdc.whit.whits(**kw)
        if op == "whitsvc":
            if p["variant"] == "lc":
                return cube.hdc.whit.whitsvc(nodata=nodata, lc=aux["lc"], p=ts(p["p"]))
            return cube.hdc.whit.whitsvc(nodata=nodata, srange=aux["srange"], p=ts(p["p"]))
        if op == "whitswcv":
            sr = aux.get("srange")
            return cube.hdc.whit.whitswcv(nodata=nodata, srange=sr, p=ts(p["p"]), robust=p["robust"])
        if op == "whitint":
            return cube.hdc.whit.whitint(aux["labels"], aux["template"])
        if op == "spi":
            kw = {}
            if p["nodata_via"] == "arg":
                kw["nodata"] = nodata
            if p["groups"] is not None:
                kw["groups"] = list(p["groups"])
            if p["cal"] is not None:
                time, _, _ = cube_coords(scn)
                kw["calibration_begin"] = str(time[p["cal"][0]].date())
                kw["calibration_end"] = str(time[p["cal"][1]].date())
            if p.get("dtype"):
                kw["dtype"] = p["dtype"]
            return cube.hdc.algo.spi(**kw)
        if op == "lroo":
            return cube.hdc.algo.lroo()
        if op == "croo":
            return cube.hdc.algo.croo()
        if op == "autocorr":
            return cube.hdc.algo.autocorr()
        if op == "mktrend":
            return cube.hdc.algo.mktrend()
        if op == "mean_grp":
            g = p["groups"]
            if p["groups_as"] == "ndarray":
                g = aux["groups"]
            kw = {"nodata": nodata} if p["nodata_via"] == "arg" else {}
            return cube.hdc.algo.mean_grp(g, **kw)
        if op == "rolling_sum":
            kw = {"nodata": nodata} if p["nodata_via"] == "arg" else {}
            if p.get("dtype"):
                kw["dtype"] = p["dtype"]
            w = p["window"]
            if scn.get("scalar_kind") == "np":
                w = np.int64(w)
            if p.get("dimension"):
                kw["dimension"] = p["dimension"]
            return cube.hdc.rolling.sum(w, **kw)
        if op == "zonal_mean":
            zones = aux["zones"]
            return cube.hdc.zonal.mean(
                zones, list(range(p["nz"])), dtype=p["dtype"], dim_name=p["dim_name"], name=p["name"]
            )
        if op == "anom":
            if p["ref"] == "yx":
                ref = aux["ref"]
            else:
                ref = p["refval"]
            f = cube.hdc.anom.ratio if p["kind"] == "ratio" else cube.hdc.anom.diff
            return f(ref, offset=p["offset"])
        if op == "iteragg":
            time, ycoord, _ = cube_coords(scn)
            kw = {"n": p["n"]}
            labels = time
            if p.get("dim"):
                kw["dim"] = p["dim"]
                labels = ycoord
            if p["begin"] is not None:
                kw["begin"] = labels[p["begin"]]
            if p["end"] is not None:
                kw["end"] = labels[p["end"]]
            f = getattr(cube.hdc.iteragg, p["kind"])
            return list(f(**kw))
        if op == "dekad":
            t = cube.time
            return {
                k: getattr(t.dekad, k)
                for k in ("idx", "yidx", "ndays", "label", "start_date", "end_date", "raw", "linspace")
            }
    raise ValueError(op)


# ---------------------------------------------------------------------------
# result normalisation and comparison
# ---------------------------------------------------------------------------


def _norm_da(da):
    coords = {}
    for k, c in da.coords.items():
        coords[str(k)] = (tuple(c.dims), np.asarray(c.values))
    return {
        "dims": tuple(da.dims),
        "dtype": str(da.dtype),
        "shape": tuple(da.shape),
        "coords": coords,
        "values": np.asarray(da.values),
    }


def normalise(res):
    """result -> ordered dict name -> {dims, dtype, shape, coords, values}."""
    out = {}
    if isinstance(res, xr.DataArray):
        out["result"] = _norm_da(res)
    elif isinstance(res, xr.Dataset):
        for k in res.data_vars:
            out[str(k)] = _norm_da(res[k])
    elif isinstance(res, (list, tuple)):
        for i, r in enumerate(res):
            for k, v in normalise(r).items():
                out[f"{i}.{k}"] = v
        out["__len__"] = {"dims": (), "dtype": "len", "shape": (len(res),), "coords": {}, "values": np.array(len(res))}
    elif isinstance(res, dict):
        for key, r in res.items():
            for k, v in normalise(r).items():
                out[f"{key}.{k}"] = v
    else:
        a = np.asarray(res)
        out["result"] = {"dims": (), "dtype": str(a.dtype), "shape": a.shape, "coords": {}, "values": a}
    return out


def declared(res):
    """dtype/shape/dims each variable *claims* before anything is computed."""
    out = {}
    if isinstance(res, xr.DataArray):
        out["result"] = (str(res.dtype), tuple(res.shape), tuple(res.dims))
    elif isinstance(res, xr.Dataset):
        for k in res.data_vars:
            out[str(k)] = (str(res[k].dtype), tuple(res[k].shape), tuple(res[k].dims))
    elif isinstance(res, (list, tuple)):
        for i, r in enumerate(res):
            for k, v in declared(r).items():
                out[f"{i}.{k}"] = v
    elif isinstance(res, dict):
        for key, r in res.items():
            for k, v in declared(r).items():
                out[f"{key}.{k}"] = v
    return out


def values_equal(a, b, ulps=0):
    """bitwise equality (NaN == NaN when in the same place); optional ulp tolerance for floats."""
    if a.shape != b.shape:
        return False
    if a.dtype != b.dtype:
        return False
    if a.dtype.kind in "fc":
        an, bn = np.isnan(a), np.isnan(b)
        if not np.array_equal(an, bn):
            return False
        if ulps == 0:
            return bool(np.array_equal(a[~an], b[~bn]))
        fa, fb = a[~an], b[~bn]
        if np.array_equal(fa, fb):
            return True
        fin = np.isfinite(fa) & np.isfinite(fb)
        if not np.array_equal(fa[~fin], fb[~fin]):
            return False
        eps = np.finfo(a.dtype).eps
        tol = ulps * eps * np.maximum(np.abs(fa[fin]), np.abs(fb[fin]))
        return bool(np.all(np.abs(fa[fin] - fb[fin]) <= tol))
    if a.dtype.kind == "O":
        return all(x == y for x, y in zip(a.ravel(), b.ravel()))
    return bool(np.array_equal(a, b))


def compare(ref, got, ulps=0):
    """Compare two normalised results.  Returns list of (class, message)."""
    out = []
    if list(ref.keys()) != list(got.keys()):
        if set(ref.keys()) != set(got.keys()):
            return [("structure", f"variables differ: {sorted(ref)} vs {sorted(got)}")]
    for k in ref:
        r, g = ref[k], got[k]
        if r["dims"] != g["dims"]:
            out.append(("dims", f"{k}: dims {r['dims']} (eager) vs {g['dims']}"))
            continue
        if r["shape"] != g["shape"]:
            out.append(("shape", f"{k}: shape {r['shape']} (eager) vs {g['shape']}"))
            continue
        if r["dtype"] != g["dtype"]:
            out.append(("dtype", f"{k}: dtype {r['dtype']} (eager) vs {g['dtype']}"))
        if set(r["coords"]) != set(g["coords"]):
            out.append(("coords", f"{k}: coord names {sorted(r['coords'])} vs {sorted(g['coords'])}"))
        else:
            for cn, (cd, cv) in r["coords"].items():
                gd, gv = g["coords"][cn]
                if cd != gd or cv.shape != gv.shape or cv.dtype != gv.dtype or not values_equal(cv, gv):
                    out.append(("coords", f"{k}: coord {cn} differs"))
        if r["dtype"] == g["dtype"]:
            if not values_equal(r["values"], g["values"], ulps):
                nbad = -1
                try:
                    nbad = int(np.sum(~((r["values"] == g["values"]) | (np.isnan(r["values"]) & np.isnan(g["values"])))))
                except Exception:  # noqa: BLE001
                    pass
                out.append(("values", f"{k}: values differ in {nbad} of {r['values'].size} cells"))
        else:
            try:
                if not values_equal(r["values"].astype("float64"), g["values"].astype("float64"), ulps):
                    out.append(("values", f"{k}: values differ (and dtypes differ)"))
            except Exception:  # noqa: BLE001
                pass
    return out


def input_digests(objs):
    """SHA-1 per input buffer (numpy-backed only); used for O3."""
    import hashlib

    out = {}
    for name, o in objs.items():
        if isinstance(o, xr.DataArray):
            if not isinstance(o.data, np.ndarray):
                continue
            a = o.data
        else:
            a = np.asarray(o)
        out[name] = hashlib.sha1(np.ascontiguousarray(a).tobytes()).hexdigest()
    return out
