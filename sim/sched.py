"""Deterministic cooperative scheduler (baton passing) with a decision tape.

Real ``threading.Thread`` objects execute the code under test, but exactly one of
them holds the baton at any time; everybody else is parked on a private Event.
A thread gives up the baton only at a *yield point*; which thread continues is
decided by a ``Chooser`` -- either seeded-random (exploration) or tape driven
(replay / minimisation).  Every choice of every kind (scheduling and fault
draws) goes through ``Sim.choose`` and is appended to ``Sim.tape`` so that a run
is a pure function of (scenario, tape).

No wall clock is read for any decision; the only timeouts are watchdogs that
turn a wedged step into a HarnessInconclusive (never into a violation).
"""

from __future__ import annotations

import hashlib
import sys
import threading

# real primitives, captured before anybody patches ``threading``
_RealLock = threading.Lock
_RealRLock = threading.RLock
_RealEvent = threading.Event
_RealThread = threading.Thread
_RealCondition = threading.Condition
_RealSemaphore = threading.Semaphore
_RealBoundedSemaphore = threading.BoundedSemaphore

WATCHDOG_S = 180.0
TOOL_ID = 4  # sys.monitoring tool id (0 debugger, 1 coverage, 2 profiler, 5 optimizer)

_tls = threading.local()


class SimError(Exception):
    """Base for verdicts produced by the simulator itself."""


class Deadlock(SimError):
    """No simulated thread is runnable while some are unfinished."""


class StepLimit(SimError):
    """Run exceeded its step cap (harness bound, not a violation)."""


class HarnessInconclusive(SimError):
    """A step wedged on something the simulator does not own."""


class _Abort(BaseException):
    """Raised inside parked threads when a run is torn down."""


def current_sim():
    return getattr(_tls, "sim", None)


class SimThread:
    __slots__ = ("tid", "name", "event", "state", "pred", "thread", "exc", "result", "why")

    def __init__(self, tid, name):
        self.tid = tid
        self.name = name
        self.event = _RealEvent()
        self.state = "runnable"  # runnable | blocked | done
        self.pred = None
        self.thread = None
        self.exc = None
        self.result = None
        self.why = ""


# ---------------------------------------------------------------------------
# choosers
# ---------------------------------------------------------------------------


class RandomChooser:
    """Seeded exploration.  ``p_switch`` biases scheduling towards staying."""

    def __init__(self, rng, p_switch=0.5):
        self.rng = rng
        self.p_switch = p_switch

    def sched(self, n_options, can_stay):
        # option 0 == stay on the current thread (or lowest tid if it cannot run)
        if n_options <= 1:
            return 0
        if can_stay:
            if self.rng.random() >= self.p_switch:
                return 0
            return 1 + self.rng.randrange(n_options - 1)
        return self.rng.randrange(n_options)

    def draw(self, kind, n_options):
        return self.rng.randrange(n_options)

    def flip(self, kind, p):
        return 1 if self.rng.random() < p else 0


class TapeChooser:
    """Replay: follow the tape; out-of-range / exhausted entries fall back to 0."""

    def __init__(self, tape):
        self.tape = list(tape)
        self.pos = 0
        self.diverged = 0

    def _next(self, n_options):
        if self.pos < len(self.tape):
            v = self.tape[self.pos]
            self.pos += 1
            if isinstance(v, int) and 0 <= v < n_options:
                return v
            self.diverged += 1
            return 0
        self.pos += 1
        return 0

    def sched(self, n_options, can_stay):
        if n_options <= 1:
            return 0
        return self._next(n_options)

    def draw(self, kind, n_options):
        return self._next(n_options)

    def flip(self, kind, p):
        return self._next(2)


# ---------------------------------------------------------------------------
# the simulator
# ---------------------------------------------------------------------------


class Sim:
    def __init__(self, chooser, max_steps=20000, preempt=True, stall=False, log_lines=True):
        self.chooser = chooser
        self.max_steps = max_steps
        self.preempt = preempt
        self.stall_enabled = stall
        self.threads = {}
        self.cur = None
        self.steps = 0
        self.tape = []
        self.log = []
        self.aborting = False
        self.failure = None  # SimError raised in a non-main thread, re-raised in main
        self.stalled = {}  # tid -> remaining decisions
        self.counters = {
            "switches": 0,
            "decisions": 0,
            "multi_decisions": 0,
            "line_yields": 0,
            "stall_fired": 0,
            "lock_contended": 0,
            "threads": 0,
            "max_runnable": 0,
        }
        self.probes = {}
        self.log_lines = log_lines

    # -- bookkeeping -------------------------------------------------------
    def probe(self, name, n=1):
        self.probes[name] = self.probes.get(name, 0) + n

    def _logev(self, *ev):
        self.log.append(ev)

    def digest(self):
        h = hashlib.sha1()
        for ev in self.log:
            h.update(repr(ev).encode())
            h.update(b"\n")
        h.update(repr(self.tape).encode())
        return h.hexdigest()

    # -- choices -----------------------------------------------------------
    def draw(self, kind, n_options):
        v = self.chooser.draw(kind, n_options)
        self.tape.append(v)
        self._logev("draw", kind, n_options, v)
        return v

    def flip(self, kind, p):
        v = self.chooser.flip(kind, p)
        self.tape.append(v)
        self._logev("flip", kind, v)
        return bool(v)

    # -- thread management ---------------------------------------------------
    def spawn(self, fn, name="t"):
        tid = len(self.threads)
        t = SimThread(tid, f"{name}{tid}")
        self.threads[tid] = t
        self.counters["threads"] += 1

        def main():
            t.event.wait()
            t.event.clear()
            if self.aborting:
                t.state = "done"
                return
            _tls.sim = self
            _tls.tid = tid
            try:
                t.result = fn()
            except _Abort:
                t.state = "done"
                return
            except SimError as e:
                t.exc = e
                if self.failure is None:
                    self.failure = e
            except BaseException as e:  # noqa: BLE001 - recorded, surfaced by caller
                t.exc = e
            finally:
                _tls.sim = None
            t.state = "done"
            if self.aborting:
                return
            self._logev("exit", tid, type(t.exc).__name__ if t.exc else None)
            self._handoff_from_done()

        t.thread = _RealThread(target=main, name=f"sim-{t.name}", daemon=True)
        t.thread.start()
        self._logev("spawn", self.cur, tid, name)
        return t

    def _runnable(self):
        out = []
        for tid in sorted(self.threads):
            t = self.threads[tid]
            if t.state == "runnable":
                out.append(tid)
            elif t.state == "blocked" and t.pred is not None and t.pred():
                out.append(tid)
        return out

    def _pick(self, reason):
        """Choose the next thread to run.  Returns tid or None (nobody runnable)."""
        self.steps += 1
        if self.steps > self.max_steps:
            raise StepLimit(f"more than {self.max_steps} scheduling steps")
        runnable = self._runnable()
        if not runnable:
            return None
        cands = runnable
        if self.stalled:
            for tid in list(self.stalled):
                self.stalled[tid] -= 1
                if self.stalled[tid] <= 0:
                    del self.stalled[tid]
            non = [t for t in runnable if t not in self.stalled]
            if non:
                cands = non
        can_stay = self.cur in cands
        if can_stay:
            order = [self.cur] + [t for t in cands if t != self.cur]
        else:
            order = cands
        self.counters["decisions"] += 1
        if len(order) > self.counters["max_runnable"]:
            self.counters["max_runnable"] = len(order)
        if len(order) > 1:
            self.counters["multi_decisions"] += 1
            k = self.chooser.sched(len(order), can_stay)
            self.tape.append(k)
        else:
            k = 0
        nxt = order[k]
        if self.log_lines or reason[0] != "line":
            self._logev("sched", self.steps, self.cur, reason, len(order), nxt)
        # stall fault: withhold a freshly chosen *other* worker for a few decisions
        if self.stall_enabled and len(order) > 2 and not self.stalled:
            if self.flip("stall", 0.05):
                victims = [t for t in order if t != nxt and t != 0]
                if victims:
                    v = victims[self.draw("stall-victim", len(victims))]
                    self.stalled[v] = 2 + self.draw("stall-len", 12)
                    self.counters["stall_fired"] += 1
        return nxt

    def _transfer(self, me, nxt_tid):
        if nxt_tid == me.tid:
            return
        self.counters["switches"] += 1
        nxt = self.threads[nxt_tid]
        self.cur = nxt_tid
        nxt.event.set()
        self._park(me)

    def _park(self, me):
        if not me.event.wait(WATCHDOG_S):
            self.aborting = True
            raise HarnessInconclusive(f"thread {me.name} parked > {WATCHDOG_S}s (wedged step)")
        me.event.clear()
        if self.aborting:
            if me.tid == 0:
                if self.failure is not None:
                    raise self.failure
                raise HarnessInconclusive("aborted")
            raise _Abort()

    def _me(self):
        tid = getattr(_tls, "tid", None)
        if tid is None or getattr(_tls, "sim", None) is not self:
            return None
        return self.threads[tid]

    def yield_point(self, reason):
        me = self._me()
        if me is None or self.cur != me.tid:
            return
        if self.aborting:
            raise _Abort()
        try:
            nxt = self._pick(reason)
        except SimError as e:
            self._fail(e, me)
            raise
        if nxt is None:  # cannot happen: the caller itself is runnable
            return
        t = self.threads[nxt]
        if t.state == "blocked":
            t.state = "runnable"
            t.pred = None
        self._transfer(me, nxt)

    def block(self, reason, pred):
        """Park the calling thread until ``pred()`` is true (evaluated by the scheduler)."""
        me = self._me()
        if me is None:
            raise RuntimeError("block() outside a simulation")
        while not pred():
            me.state = "blocked"
            me.pred = pred
            me.why = reason
            try:
                nxt = self._pick(("block", reason))
            except SimError as e:
                me.state = "runnable"
                self._fail(e, me)
                raise
            if nxt is None:
                me.state = "runnable"
                e = Deadlock(self._deadlock_msg())
                self._fail(e, me)
                raise e
            t = self.threads[nxt]
            if t.state == "blocked":
                t.state = "runnable"
                t.pred = None
            if nxt == me.tid:
                break
            self._transfer(me, nxt)
        me.state = "runnable"
        me.pred = None

    def _deadlock_msg(self):
        parts = []
        for tid in sorted(self.threads):
            t = self.threads[tid]
            if t.state != "done":
                parts.append(f"{t.name}:{t.state}:{t.why}")
        return "deadlock: " + ", ".join(parts)

    def _fail(self, e, me):
        """Record a simulator verdict; wake main (tid 0) so it can raise it."""
        if self.failure is None:
            self.failure = e
        self.aborting = True
        if me.tid != 0:
            self.cur = 0
            self.threads[0].event.set()

    def _handoff_from_done(self):
        try:
            nxt = self._pick(("exit",))
        except SimError as e:
            if self.failure is None:
                self.failure = e
            self.aborting = True
            self.cur = 0
            self.threads[0].event.set()
            return
        if nxt is None:
            if any(t.state != "done" for t in self.threads.values()):
                if self.failure is None:
                    self.failure = Deadlock(self._deadlock_msg())
                self.aborting = True
                self.cur = 0
                self.threads[0].event.set()
            return
        t = self.threads[nxt]
        if t.state == "blocked":
            t.state = "runnable"
            t.pred = None
        self.cur = nxt
        t.event.set()

    # -- running -------------------------------------------------------------
    def run(self, fn):
        """Run ``fn`` as simulated thread 0 in the calling thread."""
        assert not self.threads
        t0 = SimThread(0, "main0")
        t0.thread = threading.current_thread()
        self.threads[0] = t0
        self.counters["threads"] += 1
        self.cur = 0
        prev = (getattr(_tls, "sim", None), getattr(_tls, "tid", None))
        _tls.sim = self
        _tls.tid = 0
        try:
            res = fn()
            # let every spawned thread finish
            self.block("join-all", lambda: all(t.state == "done" for t in self.threads.values() if t.tid != 0))
            if self.failure is not None:
                raise self.failure
            return res
        finally:
            t0.state = "done"
            self.teardown()
            _tls.sim, _tls.tid = prev

    def join(self, threads):
        self.block("join", lambda: all(t.state == "done" for t in threads))

    def teardown(self):
        self.aborting = True
        for t in self.threads.values():
            if t.tid != 0 and t.thread is not None and t.thread.is_alive():
                t.event.set()
        for t in self.threads.values():
            if t.tid != 0 and t.thread is not None:
                t.thread.join(WATCHDOG_S)


# ---------------------------------------------------------------------------
# pre-emption through sys.monitoring LINE events on registered code objects
# ---------------------------------------------------------------------------

_mon_ready = False
_mon_codes = set()


def _line_cb(code, line):
    sim = getattr(_tls, "sim", None)
    if sim is None or not sim.preempt:
        return None
    sim.counters["line_yields"] += 1
    sim.yield_point(("line", code.co_name, line))
    return None


def preemptible(*codes):
    """Register code objects whose every source line is a yield point."""
    global _mon_ready
    mon = sys.monitoring
    if not _mon_ready:
        mon.use_tool_id(TOOL_ID, "hdcsim")
        mon.register_callback(TOOL_ID, mon.events.LINE, _line_cb)
        _mon_ready = True
    for c in codes:
        if c in _mon_codes:
            continue
        mon.set_local_events(TOOL_ID, c, mon.events.LINE)
        _mon_codes.add(c)


def unpreemptible_all():
    mon = sys.monitoring
    for c in list(_mon_codes):
        mon.set_local_events(TOOL_ID, c, 0)
    _mon_codes.clear()


def code_objects_of(module, recursive=True):
    """All code objects defined in a module's functions/classes (nested too)."""
    import types

    seen = set()
    out = []

    def walk_code(co):
        if co in seen:
            return
        seen.add(co)
        out.append(co)
        for k in co.co_consts:
            if isinstance(k, types.CodeType):
                walk_code(k)

    def walk_obj(o):
        if isinstance(o, types.FunctionType):
            if o.__module__ == module.__name__:
                walk_code(o.__code__)
        elif isinstance(o, (staticmethod, classmethod)):
            walk_obj(o.__func__)
        elif isinstance(o, property):
            for f in (o.fget, o.fset, o.fdel):
                if f is not None:
                    walk_obj(f)
        elif isinstance(o, type) and o.__module__ == module.__name__:
            for v in vars(o).values():
                walk_obj(v)

    for v in vars(module).values():
        walk_obj(v)
    return out


# ---------------------------------------------------------------------------
# simulator-aware locks (so a *correct* locking repair of lazycompile neither
# hangs the baton nor is reported)
# ---------------------------------------------------------------------------


class SimLock:
    def __init__(self):
        self._real = _RealLock()
        self._held = False

    def acquire(self, blocking=True, timeout=-1):
        sim = current_sim()
        if sim is None:
            return self._real.acquire(blocking, timeout)
        sim.yield_point(("lock-acquire",))
        if self._held:
            if not blocking:
                return False
            sim.counters["lock_contended"] += 1
            sim.probe("simlock_contended")
            sim.block("lock", lambda: not self._held)
        self._held = True
        return True

    def release(self):
        sim = current_sim()
        if sim is None:
            return self._real.release()
        if not self._held:
            raise RuntimeError("release unlocked lock")
        self._held = False
        sim.yield_point(("lock-release",))

    def locked(self):
        return self._held or self._real.locked()

    def __enter__(self):
        self.acquire()
        return self

    def __exit__(self, *a):
        self.release()


class SimRLock:
    def __init__(self):
        self._real = _RealRLock()
        self._owner = None
        self._count = 0

    def acquire(self, blocking=True, timeout=-1):
        sim = current_sim()
        if sim is None:
            return self._real.acquire(blocking, timeout)
        me = _tls.tid
        if self._owner == me:
            self._count += 1
            return True
        sim.yield_point(("lock-acquire",))
        if self._owner is not None:
            if not blocking:
                return False
            sim.counters["lock_contended"] += 1
            sim.probe("simlock_contended")
            sim.block("rlock", lambda: self._owner is None)
        self._owner = me
        self._count = 1
        return True

    def release(self):
        sim = current_sim()
        if sim is None:
            return self._real.release()
        if self._owner != _tls.tid:
            raise RuntimeError("cannot release un-acquired lock")
        self._count -= 1
        if self._count == 0:
            self._owner = None
            sim.yield_point(("lock-release",))

    def __enter__(self):
        self.acquire()
        return self

    def __exit__(self, *a):
        self.release()


class SimEvent:
    """threading.Event for hdc-created events: wait() parks inside the simulator."""

    def __init__(self):
        self._real = _RealEvent()
        self._flag = False

    def is_set(self):
        return self._flag or self._real.is_set()

    isSet = is_set

    def set(self):
        self._flag = True
        self._real.set()
        sim = current_sim()
        if sim is not None:
            sim.yield_point(("event-set",))

    def clear(self):
        self._flag = False
        self._real.clear()

    def wait(self, timeout=None):
        sim = current_sim()
        if sim is None:
            return self._real.wait(timeout)
        sim.yield_point(("event-wait",))
        if not self._flag:
            if timeout is not None:
                # simulated time does not exist: a timed wait either finds the flag or times out,
                # decided by the chooser (both are legal outcomes of a real timed wait)
                if sim.flip("event-timeout", 0.3):
                    return self._flag
            sim.probe("simevent_waited")
            sim.block("event", lambda: self._flag)
        return True


class SimCondition:
    """threading.Condition over a SimLock/SimRLock (or its own SimRLock)."""

    def __init__(self, lock=None):
        self._lock = lock if lock is not None else SimRLock()
        self._waiters = []
        self.acquire = self._lock.acquire
        self.release = self._lock.release
        # outside a simulation (real threads, e.g. Workload D) behave exactly like a real Condition
        # over the same underlying real lock the Sim lock delegates to
        self._realcond = _RealCondition(self._lock._real)

    def __enter__(self):
        return self._lock.__enter__()

    def __exit__(self, *a):
        return self._lock.__exit__(*a)

    def wait(self, timeout=None):
        sim = current_sim()
        if sim is None:
            return self._realcond.wait(timeout)
        token = [False]
        self._waiters.append(token)
        # release fully (RLock aware)
        saved = None
        if isinstance(self._lock, SimRLock):
            saved = (self._lock._owner, self._lock._count)
            self._lock._owner, self._lock._count = None, 0
        else:
            self._lock._held = False
        sim.probe("simcondition_waited")
        timed_out = False
        if timeout is not None and sim.flip("condition-timeout", 0.3):
            timed_out = True
        else:
            sim.block("condition", lambda: token[0])
        if token in self._waiters:
            self._waiters.remove(token)
        # re-acquire
        if isinstance(self._lock, SimRLock):
            sim.block("condition-reacquire", lambda: self._lock._owner is None)
            self._lock._owner, self._lock._count = saved
        else:
            sim.block("condition-reacquire", lambda: not self._lock._held)
            self._lock._held = True
        return not timed_out

    def wait_for(self, predicate, timeout=None):
        result = predicate()
        while not result:
            if not self.wait(timeout) and timeout is not None:
                return predicate()
            result = predicate()
        return result

    def notify(self, n=1):
        if current_sim() is None:
            self._realcond.notify(n)
            return
        for token in self._waiters[:n]:
            token[0] = True
        del self._waiters[:n]

    def notify_all(self):
        if current_sim() is None:
            self._realcond.notify_all()
            return
        self.notify(len(self._waiters))

    notifyAll = notify_all


class SimSemaphore:
    def __init__(self, value=1):
        self._value = value
        self._real = _RealSemaphore(value)  # used by real threads outside a simulation

    def acquire(self, blocking=True, timeout=None):
        sim = current_sim()
        if sim is None:
            return self._real.acquire(blocking, timeout)
        sim.yield_point(("sem-acquire",))
        if self._value <= 0:
            if not blocking:
                return False
            sim.block("semaphore", lambda: self._value > 0)
        self._value -= 1
        return True

    def release(self, n=1):
        sim = current_sim()
        if sim is None:
            self._real.release(n)
            return
        self._value += n
        sim.yield_point(("sem-release",))

    def __enter__(self):
        self.acquire()
        return self

    def __exit__(self, *a):
        self.release()


def _caller_is_hdc(depth=2):
    try:
        f = sys._getframe(depth)
    except ValueError:
        return False
    name = f.f_globals.get("__name__", "")
    return name == "hdc" or name.startswith("hdc.")


def _lock_factory(*a, **k):
    if _caller_is_hdc():
        return SimLock()
    return _RealLock(*a, **k)


def _rlock_factory(*a, **k):
    if _caller_is_hdc():
        return SimRLock()
    return _RealRLock(*a, **k)


class _SeamMeta(type):
    """Makes ``isinstance(x, threading.Event)`` etc. keep working for both flavours."""

    def __instancecheck__(cls, obj):
        return isinstance(obj, cls._flavours)


class _EventSeam(metaclass=_SeamMeta):
    _flavours = (_RealEvent, SimEvent)

    def __new__(cls, *a, **k):
        return SimEvent() if _caller_is_hdc() else _RealEvent(*a, **k)


class _ConditionSeam(metaclass=_SeamMeta):
    _flavours = (_RealCondition, SimCondition)

    def __new__(cls, lock=None):
        if _caller_is_hdc() or isinstance(lock, (SimLock, SimRLock)):
            return SimCondition(lock)
        return _RealCondition(lock)


class _SemaphoreSeam(metaclass=_SeamMeta):
    _flavours = (_RealSemaphore, SimSemaphore)

    def __new__(cls, value=1):
        return SimSemaphore(value) if _caller_is_hdc() else _RealSemaphore(value)


class _BoundedSemaphoreSeam(metaclass=_SeamMeta):
    _flavours = (_RealBoundedSemaphore, SimSemaphore)

    def __new__(cls, value=1):
        return SimSemaphore(value) if _caller_is_hdc() else _RealBoundedSemaphore(value)


import time as _time

_real_sleep = _time.sleep


def _sleep_seam(seconds):
    """``time.sleep`` called by hdc code inside a simulation is a yield point, not a real delay
    (there is no simulated clock in hdc-algo; a sleeping thread merely lets others run)."""
    sim = current_sim()
    if sim is not None and _caller_is_hdc():
        sim.probe("hdc_sleep_as_yield")
        sim.yield_point(("sleep",))
        return None
    return _real_sleep(seconds)


def install_lock_seam():
    """Synchronisation primitives created *by hdc modules* become simulator-aware; everyone else
    keeps the real ones (Lock, RLock, Event, Condition, Semaphore, BoundedSemaphore)."""
    if threading.Lock is not _lock_factory:
        threading.Lock = _lock_factory
        threading.RLock = _rlock_factory
        threading.Event = _EventSeam
        threading.Condition = _ConditionSeam
        threading.Semaphore = _SemaphoreSeam
        threading.BoundedSemaphore = _BoundedSemaphoreSeam
        _time.sleep = _sleep_seam
