"""Workload B -- caller threads sharing one DataArray (one cached ``.hdc`` accessor, one
buffer), each issuing eager accessor calls, with line-level pre-emption inside
``accessors.py``, ``utils.py`` and the lazy-compile wrapper; optionally with cold
(un-primed) wrappers so the first calls race through ``lazycompile``."""

from __future__ import annotations

import copy
import importlib
import random
import warnings

from . import proxies
from . import scenarios as S
from .sched import Deadlock, HarnessInconclusive, RandomChooser, Sim, StepLimit, TapeChooser, code_objects_of, preemptible

_registered = False
_acc_codes = ()


def _register():
    global _registered, _acc_codes
    if _registered:
        return
    import sys

    importlib.import_module("hdc.algo.accessors")
    codes = []
    # every pure-Python function of every hdc module (compiled kernels never execute their Python
    # source, so registering them costs nothing); the proxies/wrappers are registered separately
    for name, mod in sorted(sys.modules.items()):
        if mod is not None and (name == "hdc" or name.startswith("hdc.")) and "vendor" not in name:
            try:
                codes.extend(code_objects_of(mod))
            except Exception:  # noqa: BLE001
                pass
    preemptible(*codes)
    # the lazy-compile wrapper stays pre-emptible even when accessor pre-emption is switched off
    from .proxies import lazycompile_codes

    keep = set(lazycompile_codes())
    _acc_codes = tuple(c for c in dict.fromkeys(codes) if c not in keep and not c.co_filename.endswith("_helper.py"))
    _registered = True


LIKE_KEYS = ("nodata_via", "float", "nodata_attr")


def gen_B(key, op):
    rng = random.Random(key)
    base = S.gen_scenario(rng, ops=[op])
    T, Y, X = base["cube"]["shape"]
    m = rng.randint(2, 6)
    like = {k: base["params"][k] for k in LIKE_KEYS if k in base["params"]}
    calls = []
    same = rng.random() < 0.3  # every thread issues the very same call
    first = None
    for _ in range(m):
        seq = []
        for _ in range(rng.randint(1, 3)):
            if same and first is not None:
                seq.append(copy.deepcopy(first))
                continue
            c = S.gen_scenario(
                rng,
                force={"op": op, "shape": (T, Y, X), "dtype": base["cube"]["dtype"], "layout": base["layout"], "like": like, "no_cube": True},
            )
            # some calls are lazy: the caller thread builds a dask graph on the shared cube and
            # computes it on its own simulated pool *while the other caller threads run*
            if rng.random() < 0.3:
                c["lazy"] = {"chunks": {"y": S.composition(rng, Y), "x": S.composition(rng, X)}, "workers": rng.choice([1, 2, 4])}
            if first is None:
                first = c
            seq.append(c)
        calls.append(seq)
    case = {
        "base": base,
        "calls": calls,
        "cold": rng.random() < 0.6,
        "slow_steps": rng.choice([0, 1, 3, 8]),
        "p_switch": rng.choice([0.05, 0.2, 0.5, 1.0]),
        "preempt_accessors": rng.random() < 0.6,
        "workers": m,
        "sched_seed": rng.randrange(2**32),
    }
    return case


def _call_scn(base, call):
    s = dict(base)
    s["op"] = call["op"]
    s["params"] = call["params"]
    s["secondary"] = call["secondary"]
    s["secondary_backing"] = call["secondary_backing"]
    s["time_chunks"] = None
    s["lazy_call"] = call.get("lazy")
    if call.get("lazy"):
        s["chunks"] = call["lazy"]["chunks"]
    return s


def exec_B(case, tape=None):
    from .runner import RunResult, _exc_str, reseed_uuid

    _register()
    rr = RunResult()
    rr.cfg = {"slow_steps": case["slow_steps"], "cold": case["cold"]}
    rr.scn = case["base"]
    base = case["base"]
    reseed_uuid("B")
    cube = S.build_cube(base)  # the shared object
    scns = [[_call_scn(base, c) for c in seq] for seq in case["calls"]]
    auxs = [[S.build_aux(s, lazy=False) for s in seq] for seq in scns]
    # sequential references (warm wrappers), on the same shared object
    refs = []
    if True:  # warnings are silenced process-wide (catch_warnings is not thread-safe)
        for seq, aseq in zip(scns, auxs):
            r = []
            for s, a in zip(seq, aseq):
                try:
                    r.append((S.normalise(S.apply_op(s, cube, lazy=False, aux=a)), None))
                except Exception as e:  # noqa: BLE001
                    r.append((None, e))
            refs.append(r)
    watch = {"cube": cube.data}
    for ti, aseq in enumerate(auxs):
        for ci, a in enumerate(aseq):
            for k, v in a["__watch__"].items():
                watch[f"{ti}.{ci}.{k}"] = v
    before = S.input_digests(watch)

    chooser = TapeChooser(tape) if tape is not None else RandomChooser(random.Random(case.get("sched_seed", 0)), case["p_switch"])
    sim = Sim(chooser, max_steps=60000, preempt=True, stall=False, log_lines=True)
    stats = proxies.ColdStats()
    kernels = set()
    if case["cold"]:
        for seq in scns:
            for s in seq:
                kernels.update(S.kernels_of(s))
    results = [[None] * len(seq) for seq in scns]
    inside = [0]

    def make_thread(ti):
        def fn():
            sim.yield_point(("thread-start", ti))
            for ci, (s, a) in enumerate(zip(scns[ti], auxs[ti])):
                inside[0] += 1
                if inside[0] > 1:
                    sim.probe("caller_threads_interleaved_in_accessor")
                try:
                    if s.get("lazy_call"):
                        import dask

                        from . import daskexec

                        get, _ex = daskexec.make_get(sim, s["lazy_call"]["workers"])
                        lz = S.apply_op(s, S.make_lazy(s, cube), lazy=True, aux=a)
                        (out,) = dask.compute(lz, scheduler=get)
                        sim.probe("caller_thread_computed_lazy_graph")
                        results[ti][ci] = (S.normalise(out), None)
                    else:
                        results[ti][ci] = (S.normalise(S.apply_op(s, cube, lazy=False, aux=a)), None)
                except (StepLimit, HarnessInconclusive, Deadlock):
                    raise
                except Exception as e:  # noqa: BLE001
                    results[ti][ci] = (None, e)
                finally:
                    inside[0] -= 1
                sim.yield_point(("call-done", ti, ci))

        return fn

    if not case["preempt_accessors"]:
        # only the wrapper stays pre-emptible: switch accessor events off for this run
        import sys as _sys

        for c in _acc_codes:
            _sys.monitoring.set_local_events(4, c, 0)
    try:
        for k in kernels:
            proxies.set_target(k, proxies.make_cold(k, case["slow_steps"], stats))

        def body():
            ths = [sim.spawn(make_thread(ti), name="c") for ti in range(len(scns))]
            sim.join(ths)

        sim.run(body)
    except StepLimit:
        rr.outcome = "step-cap"
    except HarnessInconclusive as e:
        rr.harness = _exc_str(e)
    except Deadlock as e:
        rr.violations.append(("deadlock", str(e)))
    finally:
        proxies.reset_targets()
        if not case["preempt_accessors"]:
            import sys as _sys

            for c in _acc_codes:
                _sys.monitoring.set_local_events(4, c, _sys.monitoring.events.LINE)
    rr.tape = sim.tape
    rr.counters = dict(sim.counters)
    rr.probes = dict(sim.probes)
    rr.steps = sim.steps
    rr.digest = sim.digest()
    rr.counters["cold_compiles"] = stats.compiles
    rr.counters["cold_concurrent_compiles"] = stats.concurrent_compiles
    for t in sim.threads.values():
        if rr.outcome != "step-cap" and t.exc is not None and not isinstance(t.exc, (StepLimit, HarnessInconclusive, Deadlock)):
            rr.harness = "thread died: " + _exc_str(t.exc)
    if rr.harness:
        rr.outcome = "harness"
        return rr
    if rr.violations or rr.outcome == "step-cap":
        return rr
    after = S.input_digests(watch)
    for k in before:
        if before[k] != after[k]:
            rr.violations.append(("input-modified", f"shared input '{k}' changed while caller threads ran"))
    for ti, seq in enumerate(scns):
        for ci, s in enumerate(seq):
            ref, ref_exc = refs[ti][ci]
            got = results[ti][ci]
            if got is None:
                rr.violations.append(("call-lost", f"thread {ti} call {ci} produced nothing"))
                continue
            res, exc = got
            if ref_exc is not None:
                if exc is None:
                    rr.violations.append(("concurrent-call-differs-raises", f"thread {ti} call {ci}: sequential call raised {_exc_str(ref_exc)}, concurrent one returned"))
                continue
            if exc is not None:
                rr.violations.append(("concurrent-call-raises", f"thread {ti} call {ci} ({s['op']}): sequential call succeeded, concurrent one raised {_exc_str(exc)}"))
                continue
            for cls, msg in S.compare(ref, res):
                rr.violations.append((f"concurrent-call-differs-{cls}", f"thread {ti} call {ci} ({s['op']}): {msg}"))
    return rr


def minimise_B(case, tape, vclass, budget):
    """Drop threads / calls, switch faults off, then flatten the tape."""
    used = [0]
    best = {"case": case, "tape": list(tape), "rr": None}

    def same(rr):
        return any(v[0] == vclass for v in rr.violations)

    def attempt(c, t):
        if used[0] >= budget:
            return False
        used[0] += 1
        try:
            rr = exec_B(c, tape=t)
        except Exception:  # noqa: BLE001
            return False
        if same(rr):
            best.update(case=c, tape=list(rr.tape), rr=rr)
            return True
        return False

    if not attempt(case, tape):
        return None
    for key, off in (("cold", False), ("preempt_accessors", False), ("slow_steps", 0)):
        if best["case"][key] != off:
            c = copy.deepcopy(best["case"])
            c[key] = off
            attempt(c, best["tape"])
    # fewer threads
    changed = True
    while changed and len(best["case"]["calls"]) > 1:
        changed = False
        for i in range(len(best["case"]["calls"])):
            c = copy.deepcopy(best["case"])
            del c["calls"][i]
            if attempt(c, best["tape"]) or attempt(c, []):
                changed = True
                break
    # fewer calls per thread
    changed = True
    while changed:
        changed = False
        for ti, seq in enumerate(best["case"]["calls"]):
            if len(seq) > 1:
                for ci in range(len(seq)):
                    c = copy.deepcopy(best["case"])
                    del c["calls"][ti][ci]
                    if attempt(c, best["tape"]):
                        changed = True
                        break
            if changed:
                break
    attempt(best["case"], [])
    t = list(best["tape"])
    i = 0
    while i < len(t) and used[0] < budget:
        if t[i] != 0:
            t2 = list(t)
            t2[i] = 0
            if attempt(best["case"], t2):
                t = list(best["tape"])
        i += 1
    rr = best["rr"]
    # handle_violations expects (scn, cfg, tape, rr, used); cfg carries the whole case
    return best["case"]["base"], best["case"], best["tape"], rr, used[0]
