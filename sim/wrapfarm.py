"""Workload W -- the lazy-compile *protocol* under the scheduler, several wrappers at once.

Workloads A-cold and B race threads through one operation's wrapper(s).  The property quantifies
over "all interleavings of N threads racing on the first call of each lazily compiled kernel" --
which includes threads whose first calls hit *different* kernels at the same time (a dask graph
with an SPI and a smoother branch, two callers using different accessors).  State that a changed
``lazycompile`` shares between wrappers (a module-level lock, slot, registry or pending flag) is
only reached that way.

Here K fresh wrappers are built by the **current tree's** ``lazycompile`` around K distinguishable
plain-Python kernels and stub decorators, and M simulated threads issue drawn call sequences over
them with line-level pre-emption of every line of ``_helper.py``.  Two decorator shapes, as in the
repository: ``guvectorize``-like (compilation happens inside the decorator call) and ``njit``-like
(the decorator returns at once, the first *call* of what it returned compiles).  No numba is
involved, so a run costs ~1 ms and the schedule space of the wrapper is sampled far more densely
than the kernel-carrying workloads can.

Oracle (nothing but the property's "neither fails nor changes results"): every call returns exactly
what its own kernel returns for its own arguments, no call raises, no deadlock; the decorator is
only ever handed the function its wrapper was built for; a later sequential call through every
wrapper still works.  Compiling more than once is legal (probe only).
"""

from __future__ import annotations

import copy
import importlib
import random
import time
import types

from . import driver
from .sched import Deadlock, HarnessInconclusive, RandomChooser, Sim, StepLimit, TapeChooser, current_sim, preemptible

PROP = "C12"


def gen_W(key):
    rng = random.Random(key)
    K = rng.choice([1, 2, 2, 3, 3, 4])
    M = rng.randint(2, 6)
    wrappers = []
    for k in range(K):
        wrappers.append(
            {
                "kind": rng.choice(["gu", "njit"]),
                "slow": rng.choice([0, 1, 2, 4, 8]),  # yields inside the compile step
                "slow_call": rng.choice([0, 0, 1, 3]),  # yields inside every kernel call
            }
        )
    calls = []
    uid = 0
    burst = rng.random() < 0.5  # every thread starts with a first call (the racing situation)
    for ti in range(M):
        seq = []
        for ci in range(rng.randint(1, 4)):
            k = rng.randrange(K)
            if burst and ci == 0 and rng.random() < 0.7:
                k = ti % K if rng.random() < 0.5 else 0
            uid += 1
            c = {"w": k, "args": [uid, rng.randrange(100)], "kw": {}}
            r = rng.random()
            if r < 0.3:
                c["kw"] = {"out": uid * 7}
            elif r < 0.4:
                c["kw"] = {"axis": -1, "nodata": uid}
            seq.append(c)
        calls.append(seq)
    return {"wrappers": wrappers, "calls": calls, "p_switch": rng.choice([0.1, 0.3, 0.6, 1.0]), "sched_seed": rng.randrange(2**32)}


def _expected(k, call):
    return ("farm", k, tuple(call["args"]), tuple(sorted(call["kw"].items())))


def _build(case, stats):
    helper = importlib.import_module("hdc.algo.ops._helper")
    from .proxies import register_wrapper_preemption

    register_wrapper_preemption()
    built = []
    for k, spec in enumerate(case["wrappers"]):

        def make(k=k, spec=spec):
            def kernel(*args, **kwargs):
                return ("farm", k, tuple(args), tuple(sorted(kwargs.items())))

            kernel.__name__ = kernel.__qualname__ = f"farm_kernel_{k}"
            kernel.__module__ = f"farm.mod{k}"
            kernel.__doc__ = f"kernel {k}"

            def compile_steps(tag):
                sim = current_sim()
                stats["inside"] += 1
                if stats["inside"] > 1 and sim is not None:
                    sim.probe("farm_two_threads_in_compile_step")
                    if len(stats["inside_of"] | {k}) > 1:
                        sim.probe("farm_two_different_kernels_compiling_at_once")
                stats["inside_of"].add(k)
                if sim is not None:
                    for i in range(spec["slow"]):
                        sim.yield_point((tag, k, i))
                stats["inside"] -= 1
                if stats["inside"] == 0:
                    stats["inside_of"].clear()

            def run_kernel(args, kwargs):
                sim = current_sim()
                if sim is not None:
                    for i in range(spec["slow_call"]):
                        sim.yield_point(("kernel-call", k, i))
                return kernel(*args, **kwargs)

            def decorator(func):
                stats["decorated"][k] = stats["decorated"].get(k, 0) + 1
                if func is not kernel:
                    stats["wrong_func"].append((k, getattr(func, "__name__", repr(func))))
                if spec["kind"] == "gu":
                    compile_steps("slow-compile")

                    def compiled(*args, **kwargs):
                        return run_kernel(args, kwargs)

                    return compiled

                # njit-like dispatcher: compiles on its first call(s); concurrent first calls may
                # both compile (numba serialises them, the outcome is the same)
                state = {"ready": False}

                def dispatcher(*args, **kwargs):
                    if not state["ready"]:
                        compile_steps("slow-first-call")
                        state["ready"] = True
                    return run_kernel(args, kwargs)

                return dispatcher

            fresh = helper.lazycompile(decorator)(kernel)
            if isinstance(fresh, types.FunctionType):
                preemptible(fresh.__code__)
            return fresh

        built.append(make())
    return built


def exec_W(case, tape=None):
    from .runner import RunResult, _exc_str, install_seams

    install_seams()
    rr = RunResult()
    rr.cfg = {}
    rr.scn = {"op": "lazycompile", "wrappers": case["wrappers"]}
    stats = {"inside": 0, "inside_of": set(), "decorated": {}, "wrong_func": []}
    chooser = TapeChooser(tape) if tape is not None else RandomChooser(random.Random(case.get("sched_seed", 0)), case["p_switch"])
    sim = Sim(chooser, max_steps=20000, preempt=True, stall=False, log_lines=True)
    try:
        wrappers = _build(case, stats)
    except Exception as e:  # noqa: BLE001 - lazycompile itself failed to build a wrapper
        rr.violations.append(("wrapper-build-raises", _exc_str(e)))
        return rr
    results = [[None] * len(seq) for seq in case["calls"]]

    def make_thread(ti):
        def fn():
            sim.yield_point(("thread-start", ti))
            for ci, c in enumerate(case["calls"][ti]):
                try:
                    results[ti][ci] = (wrappers[c["w"]](*c["args"], **c["kw"]), None)
                except (StepLimit, HarnessInconclusive, Deadlock):
                    raise
                except Exception as e:  # noqa: BLE001
                    results[ti][ci] = (None, e)
                sim.yield_point(("call-done", ti, ci))

        return fn

    final = []
    try:

        def body():
            ths = [sim.spawn(make_thread(ti), name="w") for ti in range(len(case["calls"]))]
            sim.join(ths)
            # afterwards every wrapper must still work (sequentially, same simulation so that
            # simulator-aware locks keep their meaning)
            for k, w in enumerate(wrappers):
                try:
                    final.append((k, w(-1, k, out=0), None))
                except (StepLimit, HarnessInconclusive, Deadlock):
                    raise
                except Exception as e:  # noqa: BLE001
                    final.append((k, None, e))

        sim.run(body)
    except StepLimit:
        rr.outcome = "step-cap"
    except HarnessInconclusive as e:
        rr.harness = _exc_str(e)
    except Deadlock as e:
        rr.violations.append(("deadlock", str(e)))
    rr.tape = sim.tape
    rr.counters = dict(sim.counters)
    rr.probes = dict(sim.probes)
    rr.steps = sim.steps
    rr.digest = sim.digest()
    for t in sim.threads.values():
        if rr.outcome != "step-cap" and t.exc is not None and not isinstance(t.exc, (StepLimit, HarnessInconclusive, Deadlock)):
            rr.harness = "thread died: " + _exc_str(t.exc)
    if rr.harness:
        rr.outcome = "harness"
        return rr
    if rr.violations or rr.outcome == "step-cap":
        return rr
    if any(n > 1 for n in stats["decorated"].values()):
        rr.probes["farm_wrapper_compiled_more_than_once"] = 1
    for k, name in stats["wrong_func"][:1]:
        rr.violations.append(("wrapper-compiles-wrong-function", f"the decorator of wrapper {k} was handed {name}"))
    for ti, seq in enumerate(case["calls"]):
        for ci, c in enumerate(seq):
            got = results[ti][ci]
            if got is None:
                rr.violations.append(("call-lost", f"thread {ti} call {ci} produced nothing"))
                continue
            res, exc = got
            if exc is not None:
                rr.violations.append(("concurrent-call-raises", f"thread {ti} call {ci} through wrapper {c['w']} ({case['wrappers'][c['w']]['kind']}) raised {_exc_str(exc)}"))
            elif res != _expected(c["w"], c):
                rr.violations.append(("concurrent-call-differs-values", f"thread {ti} call {ci} through wrapper {c['w']} returned {res!r}, its kernel returns {_expected(c['w'], c)!r}"))
    for k, res, exc in final:
        if exc is not None:
            rr.violations.append(("later-call-raises", f"sequential call through wrapper {k} after the race raised {_exc_str(exc)}"))
        elif res != ("farm", k, (-1, k), (("out", 0),)):
            rr.violations.append(("later-call-differs-values", f"sequential call through wrapper {k} after the race returned {res!r}"))
    return rr


def minimise_W(case, tape, vclass, budget):
    used = [0]
    best = {"case": case, "tape": list(tape), "rr": None}

    def attempt(c, t):
        if used[0] >= budget:
            return False
        used[0] += 1
        try:
            rr = exec_W(c, tape=t)
        except Exception:  # noqa: BLE001
            return False
        if any(v[0] == vclass for v in rr.violations):
            best.update(case=c, tape=list(rr.tape), rr=rr)
            return True
        return False

    if not attempt(case, tape):
        return None
    # fewer threads, fewer calls
    changed = True
    while changed:
        changed = False
        cur = best["case"]
        for ti in range(len(cur["calls"])):
            if len(cur["calls"]) > 1:
                c = copy.deepcopy(cur)
                del c["calls"][ti]
                if attempt(c, best["tape"]) or attempt(c, []):
                    changed = True
                    break
            for ci in range(len(cur["calls"][ti])):
                if len(cur["calls"][ti]) > 1:
                    c = copy.deepcopy(cur)
                    del c["calls"][ti][ci]
                    if attempt(c, best["tape"]):
                        changed = True
                        break
            if changed:
                break
    # shorter compile steps
    for k in range(len(best["case"]["wrappers"])):
        for fld in ("slow", "slow_call"):
            if best["case"]["wrappers"][k][fld]:
                c = copy.deepcopy(best["case"])
                c["wrappers"][k][fld] = 0 if fld == "slow_call" else 1
                attempt(c, best["tape"])
    attempt(best["case"], [])
    t = list(best["tape"])
    i = 0
    while i < len(t) and used[0] < budget:
        if t[i] != 0:
            t2 = list(t)
            t2[i] = 0
            if attempt(best["case"], t2):
                t = list(best["tape"])
        i += 1
    return best["case"], best["tape"], best["rr"], used[0]


def replay(payload):
    return exec_W(payload["case"], tape=payload["tape"])


def job_farm(job):
    from . import runner
    from .c12impl import Agg

    runner.install_seams()
    agg = Agg()
    seed = job["seed"]
    known = driver.load_known()
    sw = driver.Stopwatch(job["budget_W"])
    t0 = time.monotonic()
    i = 0
    while not sw.expired() and i < job.get("max_runs", 10**9):
        key = f"{seed}/W/{i}"
        i += 1
        try:
            case = gen_W(key)
            rr = exec_W(case)
        except Exception as e:  # noqa: BLE001
            import traceback

            agg.d["harness"].append(f"{key}: {type(e).__name__}: {e}\n{traceback.format_exc()[-1200:]}")
            continue
        agg.d["runs"] += 1
        agg.bump("runs_by_workload", "W")
        agg.d["steps"] += rr.steps
        agg.d["sim_threads"] += rr.counters.get("threads", 0)
        agg.bump("outcomes", "W:" + rr.outcome)
        if rr.harness:
            agg.d["harness"].append(f"{key}: {rr.harness}")
            continue
        if job.get("dump"):
            agg.d["digest_map"][key] = rr.digest
        for k, v in rr.probes.items():
            agg.bump("probes", k, v)
        agg.bump("faults_fired", "preempt", rr.counters.get("line_yields", 0))
        if rr.counters.get("switches", 0) >= 1:
            agg.d["digests"].add(rr.digest[:16])
        if not any(s["workload"] == "W" for s in agg.d["samples"]):
            agg.d["samples"].append({"workload": "W", "key": key, "wrappers": case["wrappers"], "threads": len(case["calls"]), "calls_per_thread": [len(c) for c in case["calls"]], "tape_head": rr.tape[:40], "tape_len": len(rr.tape), "steps": rr.steps, "digest": rr.digest})
        seen = set()
        for vclass, msg in rr.violations:
            if vclass in seen:
                continue
            seen.add(vclass)
            tag = f"lazycompile:{vclass}"
            agg.bump("violation_counts", tag)
            kf = driver.match_known(known, PROP, vclass, {"op": "lazycompile", "class": vclass})
            if kf is not None:
                agg.bump("known_hits", kf["id"])
                continue
            if sum(1 for v in agg.d["violations"] if v["tag"] == tag) >= 2:
                continue
            payload = {"property": PROP, "workload": "W", "tag": tag, "key": key, "violation": {"class": vclass, "message": msg}, "case": case, "tape": list(rr.tape), "digest": rr.digest, "minimised": False}
            try:
                m = minimise_W(case, rr.tape, vclass, 150)
                if m is not None and m[2] is not None:
                    mcase, mtape, mrr, used = m
                    agg.d["minimise_execs"] += used
                    payload["original"] = {"threads": len(case["calls"]), "calls": sum(len(c) for c in case["calls"]), "tape_len": len(rr.tape)}
                    payload.update(case=mcase, tape=list(mtape), digest=mrr.digest, minimised=True)
                    for c2, m2 in mrr.violations:
                        if c2 == vclass:
                            payload["violation"]["message"] = m2
                            break
            except Exception as e:  # noqa: BLE001
                payload["minimise_error"] = f"{type(e).__name__}: {e}"
            agg.d["violations"].append(payload)
    agg.bump("wall", "W", time.monotonic() - t0)
    # determinism recheck
    try:
        for j in range(3 if job["budget_W"] else 0):
            key = f"{seed}/W/{j}"
            digs = [exec_W(gen_W(key)).digest for _ in range(2)]
            agg.bump("probes", "determinism_rechecks")
            if digs[0] != digs[1]:
                agg.bump("probes", "determinism_mismatches")
                agg.d["harness"].append(f"{key}: NONDETERMINISTIC simulator: two executions of one key gave digests {digs}")
    except Exception as e:  # noqa: BLE001
        agg.d["harness"].append(f"determinism recheck W: {type(e).__name__}: {e}")
    out = agg.export()
    out["name"] = job["name"]
    return out
